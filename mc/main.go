// mc is the check driver: it expands a property's family into work items,
// runs each item in a subprocess (bounded exhaustive schedule search or
// sequential enumeration), aggregates the results into an evidence file and
// prints KNOWN-FINDING / VIOLATION lines.
package main

import (
	"bufio"
	"context"
	"crypto/sha1"
	"encoding/json"
	"flag"
	"fmt"
	"os"
	"os/exec"
	"path/filepath"
	"regexp"
	"sort"
	"strconv"
	"strings"
	"sync"
	"time"

	_ "mcrt"
	"mcrt/explore"
	"scen"
)

var verifDir = "/verif" // where evidence/ and replays/ are written (MC_VERIF_OUT overrides; KNOWN_FINDINGS.jsonl is always read from /verif)

type FoundRec struct {
	Item     int      `json:"item"`
	Name     string   `json:"name"`
	Strategy int      `json:"strategy"`
	Choices  []int    `json:"choices"`
	Verdict  string   `json:"verdict"`
	Key      string   `json:"key"`
	Detail   string   `json:"detail"`
	Events   []string `json:"events"`
	Input    string   `json:"input,omitempty"`
	Repro    int      `json:"reproduced"`
}

type ItemResult struct {
	Index        int        `json:"index"`
	Name         string     `json:"name"`
	Execs        int64      `json:"execs"`
	Steps        int64      `json:"steps"`
	Points       int64      `json:"points"`
	ChoicePoints int64      `json:"choice_points"`
	Nontrivial   int64      `json:"nontrivial"`
	Distinct     int64      `json:"distinct"`
	ByDev        []int      `json:"by_dev"`
	Bound        int        `json:"bound"`
	Capped       string     `json:"capped,omitempty"`
	Nondet       string     `json:"nondet,omitempty"`
	Found        []FoundRec `json:"found,omitempty"`
	Pristine     int64      `json:"pristine,omitempty"`
	Samples      []string   `json:"samples,omitempty"`
	Seq          bool       `json:"seq,omitempty"`
	WallMs       int64      `json:"wall_ms"`
	AllStates    int64      `json:"all_states,omitempty"`
	AllPruned    int64      `json:"all_pruned,omitempty"`
	Err          string     `json:"err,omitempty"`
}

type Finding struct {
	Property []string `json:"property"`
	ID       string   `json:"id"`
	Verdict  string   `json:"verdict"`  // exact verdict or ORACLE clause key prefix
	Verdicts []string `json:"verdicts"` // alternative: any of these prefixes
	Events   []string `json:"events"`   // all must be present among the execution's events/tags
	Blocked  []string `json:"blocked"`  // all must be substrings of the violation key
	KeyHas   []string `json:"key_has"`  // substrings of key
	What     string   `json:"what"`
	Status   string   `json:"status"` // known | fixed
	Shown    string   `json:"shown_on_real_code"`
}

func loadFindings() []Finding {
	f, err := os.Open("/verif/KNOWN_FINDINGS.jsonl")
	if err != nil {
		return nil
	}
	defer f.Close()
	var out []Finding
	sc := bufio.NewScanner(f)
	sc.Buffer(make([]byte, 1<<20), 1<<20)
	for sc.Scan() {
		line := strings.TrimSpace(sc.Text())
		if line == "" || strings.HasPrefix(line, "#") || strings.HasPrefix(line, "fixed:") {
			continue
		}
		var fd Finding
		if err := json.Unmarshal([]byte(line), &fd); err != nil {
			fmt.Fprintf(os.Stderr, "KNOWN_FINDINGS.jsonl: %v\n", err)
			os.Exit(2)
		}
		out = append(out, fd)
	}
	return out
}

func (fd *Finding) matches(prop string, fr *FoundRec) bool {
	if fd.Status == "fixed" {
		return false
	}
	ok := false
	for _, p := range fd.Property {
		if p == prop {
			ok = true
		}
	}
	if !ok {
		return false
	}
	if fd.Verdict != "" && !strings.HasPrefix(fr.Key, fd.Verdict) {
		return false
	}
	if len(fd.Verdicts) > 0 {
		any := false
		for _, v := range fd.Verdicts {
			if strings.HasPrefix(fr.Key, v) {
				any = true
			}
		}
		if !any {
			return false
		}
	}
	for _, e := range fd.Events {
		has := false
		for _, x := range fr.Events {
			if x == e {
				has = true
			}
		}
		if !has {
			return false
		}
	}
	for _, b := range fd.Blocked {
		if !strings.Contains(fr.Key, b) {
			return false
		}
	}
	for _, b := range fd.KeyHas {
		if !strings.Contains(fr.Key, b) {
			return false
		}
	}
	return true
}

func main() {
	if len(os.Args) < 2 {
		usage()
	}
	if o := os.Getenv("MC_VERIF_OUT"); o != "" {
		verifDir = o
	}
	switch os.Args[1] {
	case "check":
		cmdCheck(os.Args[2:])
	case "item":
		cmdItem(os.Args[2:])
	case "replay":
		cmdReplay(os.Args[2:])
	case "list":
		cmdList(os.Args[2:])
	case "run":
		cmdRun(os.Args[2:])
	default:
		usage()
	}
}

func usage() {
	fmt.Fprintln(os.Stderr, "usage: mc check <Cxx> [--tier quick|thorough] | mc replay <file> | mc list <Cxx> [--tier t]")
	os.Exit(2)
}

func family(prop string) *scen.Family {
	f := scen.Families[prop]
	if f == nil {
		fmt.Fprintf(os.Stderr, "mc: no family for property %s\n", prop)
		os.Exit(2)
	}
	return f
}

func cmdList(args []string) {
	fs := flag.NewFlagSet("list", flag.ExitOnError)
	tier := fs.String("tier", "quick", "")
	prop := args[0]
	fs.Parse(args[1:])
	for i, it := range family(prop).Items(*tier) {
		fmt.Printf("%d\t%s\n", i, it.Name)
	}
}

// ---------------------------------------------------------------------------
// item: run one work item in this process

// onlyItems: development aid. MC_ONLY restricts a run to the items whose name contains one of the comma-separated
// substrings (workers apply the same filter, so item indices agree); the registered commands never set it.
func onlyItems(items []scen.Item) []scen.Item {
	only := os.Getenv("MC_ONLY")
	if only == "" {
		return items
	}
	var kept []scen.Item
	for _, it := range items {
		for _, sub := range strings.Split(only, ",") {
			if strings.Contains(it.Name, sub) {
				kept = append(kept, it)
				break
			}
		}
	}
	return kept
}

func runItem(prop, tier string, idx int, deadline time.Time, maxExecs int) *ItemResult {
	items := onlyItems(family(prop).Items(tier))
	if idx < 0 || idx >= len(items) {
		return &ItemResult{Index: idx, Err: "item index out of range"}
	}
	it := items[idx]
	start := time.Now()
	r := &ItemResult{Index: idx, Name: it.Name, Bound: it.Bound}
	if it.Chunk != nil {
		env := scen.RunChunkInstrumented(*it.Chunk)
		r.Seq = true
		r.Execs, r.Nontrivial, r.Distinct = env.Cases, env.Nontrivial, env.Nontrivial
		r.Steps, r.Points = env.Trans, env.States
		if r.Points == 0 {
			r.Points, r.Steps = env.Cases, env.Cases
		}
		r.Samples = env.Samples
		for _, f := range env.Found {
			r.Found = append(r.Found, FoundRec{Item: idx, Name: it.Name, Verdict: "ORACLE", Key: f.Key, Detail: f.Detail, Input: f.Input, Events: it.Tags, Repro: 5})
			if strings.HasPrefix(f.Key, "HARNESS") {
				r.Err = f.Key + ": " + f.Detail
			}
		}
		// differential against the unmodified package
		if pb := os.Getenv("MC_PRISTINE"); pb != "" && !it.Chunk.NoPristine {
			ctx, cancel := context.WithTimeout(context.Background(), 15*time.Minute)
			defer cancel()
			cmd := exec.CommandContext(ctx, pb, "chunk", prop, tier, strconv.Itoa(chunkIndex(prop, tier, it.Name)))
			cmd.Stdin = strings.NewReader(strings.Join(env.Skipped, "\n") + "\n")
			out, err := cmd.Output()
			var pr struct {
				Digest string `json:"digest"`
				Cases  int64  `json:"cases"`
			}
			if err != nil || json.Unmarshal(out, &pr) != nil {
				r.Err = fmt.Sprintf("pristine run of %s failed: %v", it.Name, err)
			} else if pr.Digest != env.Digest() {
				r.Err = fmt.Sprintf("instrumented and unmodified package disagree on chunk %s (%d vs %d cases): the rewrite changed behaviour", it.Name, env.Cases-int64(len(env.Skipped)), pr.Cases)
			} else {
				r.Pristine = pr.Cases
			}
		}
		r.WallMs = time.Since(start).Milliseconds()
		return r
	}
	var st *explore.Stats
	if it.All {
		ast := explore.ExploreAll(it.Exec, explore.Options{Strategy: it.Strat, Deadline: deadline, MaxExecs: maxExecs, Cfg: it.Cfg}, it.Ticks)
		st = &ast.Stats
		r.AllStates, r.AllPruned = int64(ast.StatesSeen), int64(ast.Pruned)
	} else {
		st = explore.Explore(it.Exec, explore.Options{Bound: it.Bound, Strategy: it.Strat, Deadline: deadline, MaxExecs: maxExecs, Cfg: it.Cfg, CurFile: os.Getenv("MC_CUR")})
	}
	r.Execs, r.Steps, r.Points, r.ChoicePoints = int64(st.Execs), st.Steps, st.Points, st.ChoicePoints
	r.ByDev = st.ByDev
	r.Distinct = int64(len(st.Distinct))
	r.Nontrivial = int64(st.Execs)
	if st.MaxChoices == 0 {
		r.Nontrivial = 0
	}
	if st.Capped {
		r.Capped = st.CapReason
	}
	r.Nondet = st.Nondet
	r.Samples = []string{it.Sample}
	// one actual execution written out: the default schedule's observation record
	{
		scfg := it.Cfg
		scfg.Strategy = it.Strat
		if o, bad := explore.RunOne(it.Exec, scfg, nil); bad == "" && o != nil {
			obs := o.Obs
			if len(obs) > 400 {
				obs = obs[:400] + "..."
			}
			r.Samples = []string{fmt.Sprintf("program %s; base strategy %d; default schedule (%d visible operations, %d choice points) observed: %s", it.Sample, it.Strat, o.Res.Steps, len(o.Res.Choices), obs)}
		}
	}
	// keep one representative per key, confirm each by replaying 5 times
	seen := map[string]bool{}
	for _, f := range st.Found {
		k := f.Outcome.Key + "|" + strings.Join(f.Outcome.Events, ",")
		if seen[k] {
			continue
		}
		seen[k] = true
		fr := FoundRec{Item: idx, Name: it.Name, Strategy: it.Strat, Choices: f.Choices, Verdict: f.Outcome.Violation, Key: f.Outcome.Key, Detail: f.Outcome.Detail, Events: f.Outcome.Events}
		cfg := it.Cfg
		cfg.Strategy = it.Strat
		for i := 0; i < 5; i++ {
			o, bad := explore.RunOne(it.Exec, cfg, f.Choices)
			if bad != "" || o.Key != f.Outcome.Key || o.Obs != f.Outcome.Obs {
				r.Nondet = fmt.Sprintf("violation %q did not reproduce identically on replay %d (%s)", f.Outcome.Key, i+1, bad)
				break
			}
			fr.Repro++
		}
		r.Found = append(r.Found, fr)
	}
	r.WallMs = time.Since(start).Milliseconds()
	return r
}

func cmdItem(args []string) {
	fs := flag.NewFlagSet("item", flag.ExitOnError)
	tier := fs.String("tier", "quick", "")
	dl := fs.Int64("deadline", 0, "unix seconds")
	maxExecs := fs.Int("max-execs", 0, "")
	prop := args[0]
	fs.Parse(args[1:])
	var deadline time.Time
	if *dl > 0 {
		deadline = time.Unix(*dl, 0)
	}
	enc := json.NewEncoder(os.Stdout)
	for _, a := range fs.Args() {
		idx, err := strconv.Atoi(a)
		if err != nil {
			continue
		}
		r := runItem(prop, *tier, idx, deadline, *maxExecs)
		enc.Encode(r)
	}
}

// ---------------------------------------------------------------------------
// check

type Evidence struct {
	PropertyID  string                 `json:"property_id"`
	Tier        string                 `json:"tier"`
	Seed        int                    `json:"seed"`
	Level       string                 `json:"level"`
	Coverage    map[string]interface{} `json:"coverage"`
	Assumptions []string               `json:"assumptions"`
	WallS       float64                `json:"wall_s"`
	Violations  int                    `json:"violations"`
}

func cmdCheck(args []string) {
	fs := flag.NewFlagSet("check", flag.ExitOnError)
	tier := fs.String("tier", "quick", "")
	workers := fs.Int("workers", 16, "")
	budget := fs.Int("budget", 0, "wall-clock budget in seconds (0 = tier default)")
	batch := fs.Int("batch", 0, "items per subprocess (0 = auto)")
	prop := args[0]
	fs.Parse(args[1:])
	if t := os.Getenv("VERIF_TIER"); t != "" && !isFlagSet(fs, "tier") {
		*tier = t
	}
	seed, _ := strconv.Atoi(os.Getenv("VERIF_SEED"))
	fam := family(prop)
	items := fam.Items(*tier)
	if os.Getenv("MC_ONLY") != "" {
		all := len(items)
		items = onlyItems(items)
		fmt.Printf("MC_ONLY=%q: %d of %d items\n", os.Getenv("MC_ONLY"), len(items), all)
		if len(items) == 0 {
			fmt.Println("nothing to run")
			os.Exit(0)
		}
	}
	start := time.Now()
	if *budget == 0 {
		*budget = 240
		if *tier == "thorough" {
			*budget = 2400
		}
	}
	deadline := start.Add(time.Duration(*budget) * time.Second)

	order := make([]int, len(items))
	for i := range order {
		order[i] = i
	}
	if seed != 0 { // the seed permutes the order of visits, never the set
		rotate := seed % len(order)
		if rotate < 0 {
			rotate = -rotate
		}
		order = append(order[rotate:], order[:rotate]...)
	}
	bsz := *batch
	if bsz == 0 {
		bsz = len(items)/(*workers*8) + 1
		if bsz > 64 {
			bsz = 64
		}
	}
	var batches [][]int
	var plain []int
	for _, i := range order {
		if items[i].Race || items[i].All {
			// one process per race item (ThreadSanitizer ends the process at the first report) and per unbounded item
			// (long-running: started first)
			batches = append(batches, []int{i})
		} else {
			plain = append(plain, i)
		}
	}
	for i := 0; i < len(plain); i += bsz {
		j := i + bsz
		if j > len(plain) {
			j = len(plain)
		}
		batches = append(batches, plain[i:j])
	}
	raceBin := os.Getenv("MC_RACE_BIN")
	self, _ := os.Executable()
	results := make([]*ItemResult, len(items))
	var mu sync.Mutex
	var wg sync.WaitGroup
	work := make(chan []int)
	var harnessErr []string
	for w := 0; w < *workers; w++ {
		wg.Add(1)
		go func() {
			defer wg.Done()
			for b := range work {
				if time.Now().After(deadline) {
					continue
				}
				a := []string{"item", prop, "--tier", *tier, "--deadline", strconv.FormatInt(deadline.Unix(), 10)}
				for _, i := range b {
					a = append(a, strconv.Itoa(i))
				}
				bin := self
				env := append(os.Environ(), "GOMAXPROCS=2", "GOMEMLIMIT=3GiB")
				curFile := ""
				if items[b[0]].Race {
					if raceBin == "" {
						mu.Lock()
						harnessErr = append(harnessErr, "race item but MC_RACE_BIN is not set")
						mu.Unlock()
						continue
					}
					bin = raceBin
					curFile = filepath.Join(os.TempDir(), fmt.Sprintf("mc-cur-%d-%d", os.Getpid(), b[0]))
					env = append(env, "GORACE=halt_on_error=1 exitcode=66", "MC_CUR="+curFile)
				}
				// a worker that does not come back (an endless loop inside one case) is killed two minutes after the
				// deadline; its items are then reported as not completed
				kctx, kcancel := context.WithDeadline(context.Background(), deadline.Add(2*time.Minute))
				cmd := exec.CommandContext(kctx, bin, a...)
				cmd.Env = env
				out, err := cmd.Output()
				killed := kctx.Err() != nil
				kcancel()
				if curFile != "" {
					if ee, ok := err.(*exec.ExitError); ok && ee.ExitCode() == 66 {
						// ThreadSanitizer reported a data race in this execution
						cur, _ := os.ReadFile(curFile)
						var choices []int
						for _, f := range strings.Fields(strings.Trim(string(cur), "[]")) {
							n, _ := strconv.Atoi(f)
							choices = append(choices, n)
						}
						key, report := raceKey(string(ee.Stderr))
						it := items[b[0]]
						r := &ItemResult{Index: b[0], Name: it.Name, Bound: it.Bound, Execs: 1, Nontrivial: 1, Distinct: 1, Points: 1, Steps: 1, Capped: "stopped at the first data race report",
							Samples: []string{it.Sample},
							Found:   []FoundRec{{Item: b[0], Name: it.Name, Strategy: it.Strat, Choices: choices, Verdict: "RACE", Key: key, Detail: report, Events: it.Tags, Repro: 1}}}
						mu.Lock()
						results[b[0]] = r
						mu.Unlock()
						os.Remove(curFile)
						continue
					}
					os.Remove(curFile)
				}
				mu.Lock()
				dec := json.NewDecoder(strings.NewReader(string(out)))
				n := 0
				for dec.More() {
					var r ItemResult
					if e := dec.Decode(&r); e != nil {
						break
					}
					rr := r
					results[r.Index] = &rr
					n++
				}
				if killed {
					// results decoded so far stand; the rest stay nil = not completed (capped)
				} else if err != nil || n != len(b) {
					msg := fmt.Sprintf("worker for items %v failed: %v (%d/%d results)", b, err, n, len(b))
					if ee, ok := err.(*exec.ExitError); ok {
						tail := string(ee.Stderr)
						if len(tail) > 2000 {
							tail = tail[len(tail)-2000:]
						}
						msg += "\n" + tail
					}
					harnessErr = append(harnessErr, msg)
				}
				mu.Unlock()
			}
		}()
	}
	for _, b := range batches {
		work <- b
	}
	close(work)
	wg.Wait()

	// aggregate
	var execs, steps, points, nontriv, distinct, pristine int64
	done, capped := 0, 0
	var cappedWhy []string
	var found []FoundRec
	var nondet []string
	byDev := map[int]int64{}
	var samples []interface{}
	maxBound := 0
	var allItems, allDone, allStates, allPruned int64
	var allList []string
	for i, r := range results {
		if items[i].All {
			allItems++
		}
		if r == nil {
			capped++
			if len(cappedWhy) < 5 {
				cappedWhy = append(cappedWhy, items[i].Name+": not completed before the deadline")
			}
			continue
		}
		done++
		if items[i].All {
			st := "complete: every interleaving"
			if r.Capped != "" {
				st = "capped: " + r.Capped
			} else {
				allDone++
			}
			allStates += r.AllStates
			allPruned += r.AllPruned
			allList = append(allList, fmt.Sprintf("%s: %s; %d executions, %d happens-before states, %d executions cut at a state already expanded", r.Name, st, r.Execs, r.AllStates, r.AllPruned))
		}
		execs += r.Execs
		steps += r.Steps
		points += r.Points
		nontriv += r.Nontrivial
		distinct += r.Distinct
		pristine += r.Pristine
		if r.Bound > maxBound {
			maxBound = r.Bound
		}
		for d, c := range r.ByDev {
			byDev[d] += int64(c)
		}
		if r.Capped != "" {
			capped++
			if len(cappedWhy) < 5 {
				cappedWhy = append(cappedWhy, fmt.Sprintf("%s: %s", r.Name, r.Capped))
			}
		}
		if r.Nondet != "" {
			nondet = append(nondet, fmt.Sprintf("%s: %s", r.Name, r.Nondet))
		}
		if r.Err != "" {
			harnessErr = append(harnessErr, r.Err)
		}
		found = append(found, r.Found...)
		if len(samples) < 6 && len(r.Samples) > 0 && (i%(len(results)/6+1) == 0) {
			samples = append(samples, r.Samples[0])
		}
	}
	if len(samples) == 0 {
		for _, r := range results {
			if r != nil && len(r.Samples) > 0 {
				samples = append(samples, r.Samples[0])
				break
			}
		}
	}
	if len(samples) == 0 {
		samples = append(samples, "no item completed")
	}

	// classify findings
	findings := loadFindings()
	os.MkdirAll(filepath.Join(verifDir, "replays"), 0o755)
	if old, _ := filepath.Glob(filepath.Join(verifDir, "replays", prop+"-*.json")); len(old) > 0 {
		for _, o := range old {
			os.Remove(o)
		}
	}
	known := map[string]int{}
	var violLines []string
	nviol := 0
	seenKey := map[string]bool{}
	for i := range found {
		fr := &found[i]
		matched := false
		for j := range findings {
			if findings[j].matches(prop, fr) {
				known[findings[j].ID+" "+findings[j].What]++
				matched = true
				break
			}
		}
		if matched {
			continue
		}
		nviol++
		k := fr.Key + "|" + strings.Join(fr.Events, ",")
		if seenKey[k] {
			continue
		}
		seenKey[k] = true
		h := sha1.Sum([]byte(fr.Name + fr.Key + fmt.Sprint(fr.Choices)))
		path := filepath.Join(verifDir, "replays", fmt.Sprintf("%s-%x.json", prop, h[:6]))
		rec := map[string]interface{}{"property": prop, "tier": *tier, "item": fr.Item, "name": fr.Name, "strategy": fr.Strategy,
			"choices": fr.Choices, "verdict": fr.Verdict, "key": fr.Key, "detail": fr.Detail, "events": fr.Events, "input": fr.Input}
		b, _ := json.MarshalIndent(rec, "", " ")
		os.WriteFile(path, b, 0o644)
		violLines = append(violLines, fmt.Sprintf("VIOLATION property=%s replay=%s", prop, path))
		fmt.Printf("  violation key=%s events=%v\n    program: %s\n    %s\n", fr.Key, fr.Events, fr.Name, firstLine(fr.Detail))
	}

	exhaustive := capped == 0 && len(harnessErr) == 0 && len(nondet) == 0
	wall := time.Since(start).Seconds()
	cov := map[string]interface{}{
		"evaluations":                   execs,
		"distinct_nontrivial":           distinct,
		"rule":                          fam.Rule,
		"samples":                       samples,
		"states":                        points,
		"transitions":                   steps,
		"traces_validated_against_impl": execs,
		"exhaustive":                    exhaustive,
		"items_total":                   len(items),
		"items_completed":               done - capped + countCappedDone(results),
		"items_capped_or_skipped":       capped,
		"capped_examples":               cappedWhy,
		"deviation_bound_max":           maxBound,
		"executions_by_deviations":      byDevList(byDev),
		"nontrivial_executions":         nontriv,
		"known_findings_matched":        known,
		"explanation": "stateless exploration of the implementation itself (mcgen-instrumented copy of /repo's working tree under the mcrt scheduler): " +
			"states = scheduling points visited, transitions = visible operations executed, traces_validated_against_impl = executions (each is a run of the real code); " +
			"for sequential items states/transitions are model states/transitions and traces_validated_against_impl counts cases also executed on the unmodified package",
	}
	if allItems > 0 {
		cov["unbounded_items"] = allItems
		cov["unbounded_items_completed"] = allDone
		cov["unbounded_happens_before_states"] = allStates
		cov["unbounded_executions_cut"] = allPruned
		cov["unbounded_detail"] = allList
	}
	if pristine > 0 {
		cov["traces_validated_against_impl"] = pristine
		cov["pristine_differential_cases"] = pristine
	}
	ev := Evidence{PropertyID: prop, Tier: *tier, Seed: seed, Level: "model_checking", Coverage: cov, WallS: wall, Violations: nviol,
		Assumptions: append([]string{
			"mcgen's rewrite preserves the semantics of the rewritten constructs and mcrt implements Go's channel/select/sync/context semantics (bound by the litmus suite run in setup and by the pristine differential of sequential cases)",
			"sequentially consistent interleavings at synchronisation granularity (complete for data-race-free code; race freedom is C10's subject)",
			"bounds: only the listed programs, schedules within the stated deviation bound under three base strategies",
		}, fam.Notes...)}
	os.MkdirAll(filepath.Join(verifDir, "evidence"), 0o755)
	b, _ := json.MarshalIndent(ev, "", " ")
	os.WriteFile(filepath.Join(verifDir, "evidence", prop+".json"), b, 0o644)

	fmt.Printf("%s %s: items=%d completed=%d capped/skipped=%d executions=%d states=%d transitions=%d distinct=%d wall=%.1fs exhaustive=%v\n",
		prop, *tier, len(items), done, capped, execs, points, steps, distinct, wall, exhaustive)
	var kk []string
	for k := range known {
		kk = append(kk, k)
	}
	sort.Strings(kk)
	for _, k := range kk {
		fmt.Printf("KNOWN-FINDING: property=%s %s (%d executions)\n", prop, k, known[k])
	}
	if len(harnessErr) > 0 || len(nondet) > 0 {
		for _, e := range harnessErr {
			fmt.Fprintf(os.Stderr, "HARNESS-ERROR: %s\n", e)
		}
		for _, e := range nondet {
			fmt.Fprintf(os.Stderr, "HARNESS-NONDETERMINISM: %s\n", e)
		}
		if len(violLines) == 0 {
			os.Exit(2)
		}
	}
	for _, l := range violLines {
		fmt.Println(l)
	}
	if len(violLines) > 0 {
		os.Exit(1)
	}
}

func countCappedDone(rs []*ItemResult) int {
	n := 0
	for _, r := range rs {
		if r != nil && r.Capped != "" {
			n++
		}
	}
	return 0 * n
}

func byDevList(m map[int]int64) []int64 {
	mx := -1
	for d := range m {
		if d > mx {
			mx = d
		}
	}
	out := make([]int64, mx+1)
	for d, c := range m {
		out[d] = c
	}
	return out
}

func firstLine(s string) string {
	if i := strings.IndexByte(s, '\n'); i >= 0 {
		return s[:i]
	}
	return s
}

func isFlagSet(fs *flag.FlagSet, name string) bool {
	set := false
	fs.Visit(func(f *flag.Flag) {
		if f.Name == name {
			set = true
		}
	})
	return set
}

// ---------------------------------------------------------------------------
// replay

func cmdReplay(args []string) {
	if len(args) < 1 {
		usage()
	}
	b, err := os.ReadFile(args[0])
	if err != nil {
		fmt.Fprintln(os.Stderr, err)
		os.Exit(2)
	}
	var rec struct {
		Property string `json:"property"`
		Tier     string `json:"tier"`
		Item     int    `json:"item"`
		Name     string `json:"name"`
		Strategy int    `json:"strategy"`
		Choices  []int  `json:"choices"`
		Key      string `json:"key"`
		Input    string `json:"input"`
	}
	if err := json.Unmarshal(b, &rec); err != nil {
		fmt.Fprintln(os.Stderr, err)
		os.Exit(2)
	}
	items := family(rec.Property).Items(rec.Tier)
	var it *scen.Item
	for i := range items {
		if items[i].Name == rec.Name {
			it = &items[i]
		}
	}
	if it == nil {
		fmt.Fprintf(os.Stderr, "replay: program %q is not generated by the current family\n", rec.Name)
		os.Exit(2)
	}
	if it.Chunk != nil {
		env := scen.RunChunkInstrumented(*it.Chunk)
		hit := false
		for _, f := range env.Found {
			if f.Input == rec.Input || rec.Input == "" {
				fmt.Printf("%s: %s\n  input: %s\n", f.Key, f.Detail, f.Input)
				hit = true
			}
		}
		if hit {
			fmt.Printf("VIOLATION property=%s replay=%s\n", rec.Property, args[0])
			os.Exit(1)
		}
		fmt.Println("no violation on replay")
		return
	}
	rcfg := it.Cfg
	rcfg.Strategy, rcfg.Trace = rec.Strategy, true
	o, bad := explore.RunOne(it.Exec, rcfg, rec.Choices)
	for _, l := range o.Res.Trace {
		fmt.Println(l)
	}
	fmt.Printf("program: %s\nverdict: %s key: %s\n%s\n", rec.Name, o.Violation, o.Key, o.Detail)
	for _, bl := range o.Res.Blocked {
		fmt.Printf("  blocked: T%d %s %s in %s %v\n", bl.ID, bl.Role, bl.Op, bl.Func, bl.Chans)
	}
	if bad != "" {
		fmt.Println("replay diverged:", bad)
		os.Exit(2)
	}
	if o.Violation != "" {
		fmt.Printf("VIOLATION property=%s replay=%s\n", rec.Property, args[0])
		os.Exit(1)
	}
	fmt.Println("no violation on replay")
}

// run: debugging aid — execute one item under an explicit choice prefix and print the trace.
func cmdRun(args []string) {
	fs := flag.NewFlagSet("run", flag.ExitOnError)
	tier := fs.String("tier", "quick", "")
	quiet := fs.Bool("q", false, "")
	prop := args[0]
	fs.Parse(args[1:])
	rest := fs.Args()
	scen.DumpRaw = os.Getenv("MC_RAW") != ""
	idx, _ := strconv.Atoi(rest[0])
	var choices []int
	for _, a := range rest[1:] {
		c, _ := strconv.Atoi(a)
		choices = append(choices, c)
	}
	it := family(prop).Items(*tier)[idx]
	rcfg := it.Cfg
	rcfg.Strategy, rcfg.Trace = it.Strat, !*quiet
	o, bad := explore.RunOne(it.Exec, rcfg, choices)
	for _, l := range o.Res.Trace {
		fmt.Println(l)
	}
	fmt.Printf("program: %s\nobs: %s\nverdict=%q key=%q detail=%s events=%v\nsteps=%d points=%d choices=%d idle=%d ticks=%d threads=%d maxlive=%d %s\n",
		it.Name, o.Obs, o.Violation, o.Key, o.Detail, o.Events, o.Res.Steps, o.Res.Points, len(o.Res.Choices), o.Res.IdleTicks, o.Res.Ticks, o.Res.Threads, o.Res.MaxLive, bad)
	for _, bl := range o.Res.Blocked {
		fmt.Printf("  not exited: T%d %s %s in %s %v\n", bl.ID, bl.Role, bl.Op, bl.Func, bl.Chans)
	}
}

func chunkIndex(prop, tier, name string) int {
	for i, c := range scen.SeqFamilies[prop](tier) {
		if c.Name == name {
			return i
		}
	}
	return -1
}

var reRaceFunc = regexp.MustCompile(`(?m)^(?:Read|Write|Previous read|Previous write) at .*\n\s+(\S+)\(\)`)

// raceKey extracts the two accessing functions from a ThreadSanitizer report.
func raceKey(stderr string) (string, string) {
	i := strings.Index(stderr, "WARNING: DATA RACE")
	if i < 0 {
		return "RACE:unparsed", stderr
	}
	rep := stderr[i:]
	if j := strings.Index(rep[1:], "=================="); j > 0 {
		rep = rep[:j+1]
	}
	var fs []string
	for _, m := range reRaceFunc.FindAllStringSubmatch(rep, -1) {
		f := m[1]
		f = strings.TrimPrefix(f, "github.com/vbauerster/mpb/v8/")
		f = strings.TrimPrefix(f, "github.com/vbauerster/mpb/")
		fs = append(fs, f)
	}
	sort.Strings(fs)
	if len(rep) > 4000 {
		rep = rep[:4000]
	}
	return "RACE:" + strings.Join(fs, "|"), rep
}
