#!/usr/bin/env python3
"""mk134.py: table of what the quick and thorough tiers covered, from evidence/ and evidence-thorough/ (DESIGN 13.4)."""
import json, os
def row(d):
    c = d["coverage"]
    dev = c.get("executions_by_deviations") or []
    un = ""
    if c.get("unbounded_items"):
        un = f"; unbounded {c['unbounded_items_completed']}/{c['unbounded_items']} programs complete ({c['unbounded_happens_before_states']:,} hb-states)"
    return (f"{c['items_total']} | {c['evaluations']:,} | {c['states']:,} | {c['transitions']:,} | {c['distinct_nontrivial']:,} | "
            f"d≤{c.get('deviation_bound_max',0)} {dev} | {d['wall_s']:.0f} s | {'yes' if c['exhaustive'] else 'no: ' + str(c['items_capped_or_skipped']) + ' items capped'}{un}")
print("| property | tier | programs×strategies (items) | executions | scheduling points (states) | operations (transitions) | distinct outcomes | deviation bound [executions per deviation count] | wall | every item completed |")
print("|---|---|---|---|---|---|---|---|---|---|")
for i in range(1, 21):
    p = f"C{i:02d}"
    for tier, path in (("quick", f"/verif/evidence/{p}.json"), ("thorough", f"/verif/evidence-thorough/{p}.json")):
        if os.path.exists(path):
            d = json.load(open(path))
            print(f"| {p} | {tier} | {row(d)} |")
