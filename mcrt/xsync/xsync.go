// Package xsync replaces "sync" in rewritten code.
package xsync

import "mcrt"

type WaitGroup = mcrt.WaitGroup
type Mutex = mcrt.Mutex
type RWMutex = mcrt.Mutex
type Once = mcrt.Once

// Locker mirrors sync.Locker.
type Locker interface {
	Lock()
	Unlock()
}
