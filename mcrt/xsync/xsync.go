// Package xsync replaces "sync" in rewritten code.
package xsync

import "mcrt"

type WaitGroup = mcrt.WaitGroup
type Mutex = mcrt.Mutex
type RWMutex = mcrt.Mutex
type Once = mcrt.Once
type Cond = mcrt.Cond
type Pool = mcrt.Pool
type Map = mcrt.Map

// Locker mirrors sync.Locker.
type Locker = mcrt.Locker

func NewCond(l Locker) *Cond { return mcrt.NewCond(l) }

// OnceFunc, OnceValue, OnceValues mirror the Go 1.21 helpers (a panic in f is not replayed on later calls).
func OnceFunc(f func()) func() {
	var o Once
	return func() { o.Do(f) }
}

func OnceValue[T any](f func() T) func() T {
	var o Once
	var v T
	return func() T { o.Do(func() { v = f() }); return v }
}

func OnceValues[T1, T2 any](f func() (T1, T2)) func() (T1, T2) {
	var o Once
	var v1 T1
	var v2 T2
	return func() (T1, T2) { o.Do(func() { v1, v2 = f() }); return v1, v2 }
}
