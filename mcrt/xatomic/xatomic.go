// Package xatomic replaces "sync/atomic" in rewritten code: every atomic
// operation is a scheduling point followed by a plain access.
package xatomic

import "mcrt"

func AddInt32(p *int32, d int32) int32     { mcrt.Yield(); *p += d; return *p }
func AddInt64(p *int64, d int64) int64     { mcrt.Yield(); *p += d; return *p }
func AddUint32(p *uint32, d uint32) uint32 { mcrt.Yield(); *p += d; return *p }
func AddUint64(p *uint64, d uint64) uint64 { mcrt.Yield(); *p += d; return *p }
func LoadInt32(p *int32) int32             { mcrt.Yield(); return *p }
func LoadInt64(p *int64) int64             { mcrt.Yield(); return *p }
func LoadUint32(p *uint32) uint32          { mcrt.Yield(); return *p }
func LoadUint64(p *uint64) uint64          { mcrt.Yield(); return *p }
func StoreInt32(p *int32, v int32)         { mcrt.Yield(); *p = v }
func StoreInt64(p *int64, v int64)         { mcrt.Yield(); *p = v }
func StoreUint32(p *uint32, v uint32)      { mcrt.Yield(); *p = v }
func StoreUint64(p *uint64, v uint64)      { mcrt.Yield(); *p = v }
func CompareAndSwapInt32(p *int32, o, n int32) bool {
	mcrt.Yield()
	if *p == o {
		*p = n
		return true
	}
	return false
}
func CompareAndSwapInt64(p *int64, o, n int64) bool {
	mcrt.Yield()
	if *p == o {
		*p = n
		return true
	}
	return false
}
func CompareAndSwapUint32(p *uint32, o, n uint32) bool {
	mcrt.Yield()
	if *p == o {
		*p = n
		return true
	}
	return false
}

type Bool struct{ v bool }

func (b *Bool) Load() bool   { mcrt.Yield(); return b.v }
func (b *Bool) Store(v bool) { mcrt.Yield(); b.v = v }
func (b *Bool) CompareAndSwap(o, n bool) bool {
	mcrt.Yield()
	if b.v == o {
		b.v = n
		return true
	}
	return false
}
func (b *Bool) Swap(n bool) bool { mcrt.Yield(); o := b.v; b.v = n; return o }

type Int32 struct{ v int32 }

func (x *Int32) Load() int32       { mcrt.Yield(); return x.v }
func (x *Int32) Store(v int32)     { mcrt.Yield(); x.v = v }
func (x *Int32) Add(d int32) int32 { mcrt.Yield(); x.v += d; return x.v }
func (x *Int32) CompareAndSwap(o, n int32) bool {
	mcrt.Yield()
	if x.v == o {
		x.v = n
		return true
	}
	return false
}

type Int64 struct{ v int64 }

func (x *Int64) Load() int64       { mcrt.Yield(); return x.v }
func (x *Int64) Store(v int64)     { mcrt.Yield(); x.v = v }
func (x *Int64) Add(d int64) int64 { mcrt.Yield(); x.v += d; return x.v }
func (x *Int64) CompareAndSwap(o, n int64) bool {
	mcrt.Yield()
	if x.v == o {
		x.v = n
		return true
	}
	return false
}

type Uint32 struct{ v uint32 }

func (x *Uint32) Load() uint32        { mcrt.Yield(); return x.v }
func (x *Uint32) Store(v uint32)      { mcrt.Yield(); x.v = v }
func (x *Uint32) Add(d uint32) uint32 { mcrt.Yield(); x.v += d; return x.v }

type Uint64 struct{ v uint64 }

func (x *Uint64) Load() uint64        { mcrt.Yield(); return x.v }
func (x *Uint64) Store(v uint64)      { mcrt.Yield(); x.v = v }
func (x *Uint64) Add(d uint64) uint64 { mcrt.Yield(); x.v += d; return x.v }

type Value struct{ v interface{} }

func (x *Value) Load() interface{}   { mcrt.Yield(); return x.v }
func (x *Value) Store(v interface{}) { mcrt.Yield(); x.v = v }
