// Package xatomic replaces "sync/atomic" in rewritten code: every atomic operation is a pair of scheduling points
// around a plain access, ordered after every earlier operation on the same variable (mcrt.AtomicEnter/AtomicLeave).
// Nothing here is generic code that touches shared memory: generic functions are compiled in the importing
// (race-instrumented) package, so Pointer[T] keeps its value behind non-generic accessors.
package xatomic

import (
	"mcrt"
	"unsafe"
)

//go:noinline
func enter(p unsafe.Pointer) *mcrt.Mutex { return mcrt.AtomicEnter(p) }

//go:noinline
func leave(m *mcrt.Mutex) { mcrt.AtomicLeave(m) }

func AddInt32(p *int32, d int32) (r int32) {
	m := enter(unsafe.Pointer(p))
	*p += d
	r = *p
	leave(m)
	return
}
func AddInt64(p *int64, d int64) (r int64) {
	m := enter(unsafe.Pointer(p))
	*p += d
	r = *p
	leave(m)
	return
}
func AddUint32(p *uint32, d uint32) (r uint32) {
	m := enter(unsafe.Pointer(p))
	*p += d
	r = *p
	leave(m)
	return
}
func AddUint64(p *uint64, d uint64) (r uint64) {
	m := enter(unsafe.Pointer(p))
	*p += d
	r = *p
	leave(m)
	return
}
func AddUintptr(p *uintptr, d uintptr) (r uintptr) {
	m := enter(unsafe.Pointer(p))
	*p += d
	r = *p
	leave(m)
	return
}
func LoadInt32(p *int32) (r int32)       { m := enter(unsafe.Pointer(p)); r = *p; leave(m); return }
func LoadInt64(p *int64) (r int64)       { m := enter(unsafe.Pointer(p)); r = *p; leave(m); return }
func LoadUint32(p *uint32) (r uint32)    { m := enter(unsafe.Pointer(p)); r = *p; leave(m); return }
func LoadUint64(p *uint64) (r uint64)    { m := enter(unsafe.Pointer(p)); r = *p; leave(m); return }
func LoadUintptr(p *uintptr) (r uintptr) { m := enter(unsafe.Pointer(p)); r = *p; leave(m); return }
func StoreInt32(p *int32, v int32)       { m := enter(unsafe.Pointer(p)); *p = v; leave(m) }
func StoreInt64(p *int64, v int64)       { m := enter(unsafe.Pointer(p)); *p = v; leave(m) }
func StoreUint32(p *uint32, v uint32)    { m := enter(unsafe.Pointer(p)); *p = v; leave(m) }
func StoreUint64(p *uint64, v uint64)    { m := enter(unsafe.Pointer(p)); *p = v; leave(m) }
func StoreUintptr(p *uintptr, v uintptr) { m := enter(unsafe.Pointer(p)); *p = v; leave(m) }
func SwapInt32(p *int32, v int32) (o int32) {
	m := enter(unsafe.Pointer(p))
	o = *p
	*p = v
	leave(m)
	return
}
func SwapInt64(p *int64, v int64) (o int64) {
	m := enter(unsafe.Pointer(p))
	o = *p
	*p = v
	leave(m)
	return
}
func SwapUint32(p *uint32, v uint32) (o uint32) {
	m := enter(unsafe.Pointer(p))
	o = *p
	*p = v
	leave(m)
	return
}
func SwapUint64(p *uint64, v uint64) (o uint64) {
	m := enter(unsafe.Pointer(p))
	o = *p
	*p = v
	leave(m)
	return
}
func CompareAndSwapInt32(p *int32, o, n int32) (ok bool) {
	m := enter(unsafe.Pointer(p))
	if *p == o {
		*p = n
		ok = true
	}
	leave(m)
	return
}
func CompareAndSwapInt64(p *int64, o, n int64) (ok bool) {
	m := enter(unsafe.Pointer(p))
	if *p == o {
		*p = n
		ok = true
	}
	leave(m)
	return
}
func CompareAndSwapUint32(p *uint32, o, n uint32) (ok bool) {
	m := enter(unsafe.Pointer(p))
	if *p == o {
		*p = n
		ok = true
	}
	leave(m)
	return
}
func CompareAndSwapUint64(p *uint64, o, n uint64) (ok bool) {
	m := enter(unsafe.Pointer(p))
	if *p == o {
		*p = n
		ok = true
	}
	leave(m)
	return
}

type Bool struct{ v bool }

func (b *Bool) Load() (r bool) { m := enter(unsafe.Pointer(b)); r = b.v; leave(m); return }
func (b *Bool) Store(v bool)   { m := enter(unsafe.Pointer(b)); b.v = v; leave(m) }
func (b *Bool) Swap(n bool) (o bool) {
	m := enter(unsafe.Pointer(b))
	o = b.v
	b.v = n
	leave(m)
	return
}
func (b *Bool) CompareAndSwap(o, n bool) (ok bool) {
	m := enter(unsafe.Pointer(b))
	if b.v == o {
		b.v = n
		ok = true
	}
	leave(m)
	return
}

type Int32 struct{ v int32 }

func (x *Int32) Load() int32                    { return LoadInt32(&x.v) }
func (x *Int32) Store(v int32)                  { StoreInt32(&x.v, v) }
func (x *Int32) Add(d int32) int32              { return AddInt32(&x.v, d) }
func (x *Int32) Swap(v int32) int32             { return SwapInt32(&x.v, v) }
func (x *Int32) CompareAndSwap(o, n int32) bool { return CompareAndSwapInt32(&x.v, o, n) }

type Int64 struct{ v int64 }

func (x *Int64) Load() int64                    { return LoadInt64(&x.v) }
func (x *Int64) Store(v int64)                  { StoreInt64(&x.v, v) }
func (x *Int64) Add(d int64) int64              { return AddInt64(&x.v, d) }
func (x *Int64) Swap(v int64) int64             { return SwapInt64(&x.v, v) }
func (x *Int64) CompareAndSwap(o, n int64) bool { return CompareAndSwapInt64(&x.v, o, n) }

type Uint32 struct{ v uint32 }

func (x *Uint32) Load() uint32                    { return LoadUint32(&x.v) }
func (x *Uint32) Store(v uint32)                  { StoreUint32(&x.v, v) }
func (x *Uint32) Add(d uint32) uint32             { return AddUint32(&x.v, d) }
func (x *Uint32) Swap(v uint32) uint32            { return SwapUint32(&x.v, v) }
func (x *Uint32) CompareAndSwap(o, n uint32) bool { return CompareAndSwapUint32(&x.v, o, n) }

type Uint64 struct{ v uint64 }

func (x *Uint64) Load() uint64                    { return LoadUint64(&x.v) }
func (x *Uint64) Store(v uint64)                  { StoreUint64(&x.v, v) }
func (x *Uint64) Add(d uint64) uint64             { return AddUint64(&x.v, d) }
func (x *Uint64) Swap(v uint64) uint64            { return SwapUint64(&x.v, v) }
func (x *Uint64) CompareAndSwap(o, n uint64) bool { return CompareAndSwapUint64(&x.v, o, n) }

type Uintptr struct{ v uintptr }

func (x *Uintptr) Load() uintptr         { return LoadUintptr(&x.v) }
func (x *Uintptr) Store(v uintptr)       { StoreUintptr(&x.v, v) }
func (x *Uintptr) Add(d uintptr) uintptr { return AddUintptr(&x.v, d) }

// Value mirrors atomic.Value (the consistent-type panics are not modelled).
type Value struct{ v interface{} }

//go:noinline
func (x *Value) Load() (r interface{}) { m := enter(unsafe.Pointer(x)); r = x.v; leave(m); return }

//go:noinline
func (x *Value) Store(v interface{}) {
	if v == nil {
		panic("sync/atomic: store of nil value into Value")
	}
	m := enter(unsafe.Pointer(x))
	x.v = v
	leave(m)
}

//go:noinline
func (x *Value) Swap(n interface{}) (o interface{}) {
	m := enter(unsafe.Pointer(x))
	o = x.v
	x.v = n
	leave(m)
	return
}

//go:noinline
func (x *Value) CompareAndSwap(o, n interface{}) (ok bool) {
	m := enter(unsafe.Pointer(x))
	if x.v == o {
		x.v = n
		ok = true
	}
	leave(m)
	return
}

// ptrCell is the non-generic storage of Pointer[T].
type ptrCell struct{ p unsafe.Pointer }

//go:noinline
func (c *ptrCell) load() (r unsafe.Pointer) { m := enter(unsafe.Pointer(c)); r = c.p; leave(m); return }

//go:noinline
func (c *ptrCell) store(v unsafe.Pointer) { m := enter(unsafe.Pointer(c)); c.p = v; leave(m) }

//go:noinline
func (c *ptrCell) swap(v unsafe.Pointer) (o unsafe.Pointer) {
	m := enter(unsafe.Pointer(c))
	o = c.p
	c.p = v
	leave(m)
	return
}

//go:noinline
func (c *ptrCell) cas(o, n unsafe.Pointer) (ok bool) {
	m := enter(unsafe.Pointer(c))
	if c.p == o {
		c.p = n
		ok = true
	}
	leave(m)
	return
}

func LoadPointer(p *unsafe.Pointer) unsafe.Pointer     { return (*ptrCell)(unsafe.Pointer(p)).load() }
func StorePointer(p *unsafe.Pointer, v unsafe.Pointer) { (*ptrCell)(unsafe.Pointer(p)).store(v) }
func SwapPointer(p *unsafe.Pointer, v unsafe.Pointer) unsafe.Pointer {
	return (*ptrCell)(unsafe.Pointer(p)).swap(v)
}
func CompareAndSwapPointer(p *unsafe.Pointer, o, n unsafe.Pointer) bool {
	return (*ptrCell)(unsafe.Pointer(p)).cas(o, n)
}

// Pointer mirrors atomic.Pointer[T].
type Pointer[T any] struct {
	_ [0]*T
	c ptrCell
}

func (x *Pointer[T]) Load() *T     { return (*T)(x.c.load()) }
func (x *Pointer[T]) Store(v *T)   { x.c.store(unsafe.Pointer(v)) }
func (x *Pointer[T]) Swap(v *T) *T { return (*T)(x.c.swap(unsafe.Pointer(v))) }
func (x *Pointer[T]) CompareAndSwap(o, n *T) bool {
	return x.c.cas(unsafe.Pointer(o), unsafe.Pointer(n))
}
