package mcrt

import "time"

// Ticker models time.Ticker on the virtual clock: ticks are environment events.
type Ticker struct {
	C  *Chan[time.Time]
	tm *timerEnt
}

func NewTicker(d time.Duration) *Ticker {
	if d <= 0 {
		panic("non-positive interval for NewTicker")
	}
	s, _ := cur()
	c := Make[time.Time](1, "ticker.C")
	tm := &timerEnt{id: len(s.timers), deadline: s.now + d, period: d, c: c.k, active: true}
	s.timers = append(s.timers, tm)
	return &Ticker{C: c, tm: tm}
}

func (t *Ticker) Stop() { t.tm.active = false }
func (t *Ticker) Reset(d time.Duration) {
	t.tm.period = d
	t.tm.deadline = S.now + d
	t.tm.active = true
}

// Timer models time.Timer.
type Timer struct {
	C  *Chan[time.Time]
	tm *timerEnt
}

func NewTimer(d time.Duration) *Timer {
	s, _ := cur()
	c := Make[time.Time](1, "timer.C")
	tm := &timerEnt{id: len(s.timers), deadline: s.now + d, c: c.k, active: true}
	s.timers = append(s.timers, tm)
	return &Timer{C: c, tm: tm}
}

func (t *Timer) Stop() bool {
	was := t.tm.active
	t.tm.active = false
	return was
}

func (t *Timer) Reset(d time.Duration) bool {
	was := t.tm.active
	t.tm.deadline = S.now + d
	t.tm.active = true
	return was
}

func After(d time.Duration) *Chan[time.Time] { return NewTimer(d).C }
func Tick(d time.Duration) *Chan[time.Time]  { return NewTicker(d).C }

func AfterFunc(d time.Duration, f func()) *Timer {
	s, _ := cur()
	tm := &timerEnt{id: len(s.timers), deadline: s.now + d, fn: f, active: true}
	s.timers = append(s.timers, tm)
	return &Timer{tm: tm}
}

func Sleep(d time.Duration) {
	if d <= 0 {
		Yield()
		return
	}
	After(d).Recv()
}

func Since(t time.Time) time.Duration { return Now().Sub(t) }
func Until(t time.Time) time.Duration { return t.Sub(Now()) }
