module mcrt

go 1.21
