// Package mcrt is a controlled runtime for model checking Go code that has
// been rewritten by mcgen: every channel operation, select, go statement,
// sync primitive, context cancellation and timer goes through this package,
// exactly one thread runs at a time and every visible operation is a
// scheduling point at which a Chooser decides who runs next.
//
// The channel semantics mirror runtime/chan.go: a thread whose operation
// cannot complete enqueues itself in the channel's FIFO wait queue and is
// completed later by the partner operation (direct hand-off), a receive from
// a full buffered channel with blocked senders moves the first blocked
// sender's value into the buffer, close wakes all waiters.
package mcrt

import (
	"fmt"
	"hash/fnv"
	"runtime"
	"sort"
	"strings"
	"sync"
	"time"
)

// Verdict kinds.
const (
	VNone     = ""
	VDeadlock = "DEADLOCK"
	VStarved  = "STARVED"
	VLivelock = "LIVELOCK"
	VPanic    = "PANIC"
	VFuel     = "FUEL"
	VHarness  = "HARNESS" // harness misuse / nondeterminism; never a property verdict
	VPruned   = "PRUNED"  // state seen before (unbounded search with state keys); not a property verdict
)

// Base strategies (who runs at a blocking point when no deviation is taken).
const (
	StratFIFO   = 0
	StratOldest = 1
	StratNewest = 2
)

type Config struct {
	Strategy      int
	MaxSteps      int // livelock horizon (visible operations)
	FairAfter     int // after this many visible operations the base strategy becomes round-robin FIFO (fair)
	MaxIdleTicks  int // idle environment events before STARVED
	FuelLimit     int // loop iterations between two visible operations
	Trace         bool
	ReverseCancel bool // cancel child contexts in reverse creation order
	// SeenState, if set, is asked after every performed operation (outside the replayed prefix) whether the
	// execution's happens-before state has been reached before; true ends the execution with verdict PRUNED.
	// The key hashes, per thread, the sequence of operations it performed (with the objects and the results) and,
	// per modelled object, the sequence of operations performed on it: two interleavings that order independent
	// operations differently reach the same key.
	SeenState func(key uint64) bool
	// Replaying, if set, reports whether the chooser is still inside the prefix it was given.
	Replaying func() bool
	MaxTicks  int // >0: at most this many non-idle (early) environment ticks are offered as alternatives
	// OnRendezvous, if set, observes every unbuffered hand-off (sender role, receiver role, channel name).
	OnRendezvous func(sender, receiver, ch string)
}

func (c *Config) defaults() {
	if c.MaxSteps == 0 {
		c.MaxSteps = 9000
	}
	if c.FairAfter == 0 {
		c.FairAfter = 3000
	}
	if c.MaxIdleTicks == 0 {
		c.MaxIdleTicks = 40
	}
	if c.FuelLimit == 0 {
		c.FuelLimit = 200000
	}
}

// Chooser decides which of n (>=2) alternatives is taken at a choice point.
// Alternative 0 is the default.
type Chooser interface {
	Choose(n int) int
}

type ChooserFunc func(n int) int

func (f ChooserFunc) Choose(n int) int { return f(n) }

const (
	tsReady = iota
	tsRunning
	tsBlocked
	tsDone
)

type opKind uint8

const (
	opStart opKind = iota
	opResume
	opChan   // single send or recv
	opSelect // select statement
	opClose
	opWgAdd
	opWgWait
	opLock
	opUnlock
	opRLock
	opRUnlock
	opCancel
	opQuiesce
	opYield
)

var opNames = [...]string{"start", "resume", "chan", "select", "close", "wg.Add", "wg.Wait", "Lock", "Unlock", "RLock", "RUnlock", "cancel", "quiesce", "yield"}

type scase struct {
	send bool
	c    *core
	val  interface{}
}

type op struct {
	kind       opKind
	cases      []scase
	hasDefault bool
	c          *core // close
	wg         *WaitGroup
	n          int
	mu         *Mutex
	// results
	chosen   int
	val      interface{}
	ok       bool
	panicMsg string
}

type Thread struct {
	ID         int
	Role       string
	Client     bool // harness thread (not library-created)
	wake       chan struct{}
	done       chan struct{}
	state      int
	op         op
	readySince int
	exiting    bool
	fuel       int
	pcs        [16]uintptr
	npcs       int
	single     [1]scase
	fn         func()
	hist       uint64 // hash of the operations this thread performed so far
	roleHash   uint64
	curTok     *tok   // race variant: token released when the current operation was announced
	acq        []*tok // race variant: tokens to acquire when the operation has completed
}

type core struct {
	hist     uint64 // hash of the operations performed on this channel so far
	id       int
	name     string
	cap      int
	btok     []*tok // race variant: sender token per buffered value
	free     []*tok // race variant: tokens of the receives that freed buffer slots
	closeTok *tok
	buf      []interface{}
	closed   bool
	sendq    []*waiter
	recvq    []*waiter
}

type waiter struct {
	t       *Thread
	caseIdx int
	val     interface{}
}

type Choice struct {
	N, Idx int
}

type BlockedInfo struct {
	ID    int
	Role  string
	Op    string
	Func  string   // innermost non-runtime function the thread is blocked in
	Stack []string // function names, innermost first
	Chans []string
}

type Result struct {
	Verdict   string
	Msg       string
	Stack     string
	Steps     int
	Points    int // scheduling points visited
	Choices   []Choice
	Hash      uint64
	IdleTicks int
	Ticks     int
	Threads   int
	MaxLive   int
	Roles     map[string]int
	Blocked   []BlockedInfo // threads not exited when the execution ended
	MainDone  bool
	Trace     []string
}

type fuelPanic struct{}
type abortPanic struct{}

type timerEnt struct {
	id       int
	deadline time.Duration
	period   time.Duration // 0 = one-shot
	c        *core
	fn       func()
	active   bool
}

type Sched struct {
	cfg        Config
	chooser    Chooser
	threads    []*Thread
	cur        *Thread
	steps      int
	points     int
	choices    []Choice
	hash       uint64
	now        time.Duration
	timers     []*timerEnt
	idle       int
	ticks      int
	nchan      int
	live       int
	maxLive    int
	verdict    string
	msg        string
	stack      string
	aborting   bool
	aborter    *Thread
	finished   chan struct{}
	mainDone   bool
	trace      []string
	ctxSeq     int
	tdTok      *tok // race variant: everything every thread did before its last announcement
	cores      []*core
	objs       []*uint64      // histories of WaitGroups and Mutexes touched in this execution
	early      int            // early ticks taken
	woken      []*Thread      // threads whose blocked operation was completed by the operation being performed
	gwg        sync.WaitGroup // real: every goroutine started for this execution
	nextID     int
	nthreads   int
	doneHash   uint64 // exited threads' contribution to the state key
	roleNames  []string
	roleCounts []int
	atomics    []atomicCell // per-execution registry of the variables touched by sync/atomic operations
}

// S is the scheduler of the execution in progress (nil outside Run).
var S *Sched

var epoch = time.Date(2020, 1, 1, 0, 0, 0, 0, time.UTC)

// Run executes main as thread 0 under the given chooser and returns when the
// execution has ended (main returned, or a verdict was reached) and every
// goroutine created for it has exited.
func Run(cfg Config, ch Chooser, main func()) *Result {
	cfg.defaults()
	s := &Sched{cfg: cfg, chooser: ch, finished: make(chan struct{}), tdTok: newTok()}
	h := fnv.New64a()
	s.hash = h.Sum64()
	S = s
	t := s.newThread("main", main)
	t.Client = true
	t.state = tsRunning
	s.cur = t
	t.wake <- struct{}{}
	<-s.finished
	// release every remaining goroutine, one at a time
	if s.aborter != nil {
		<-s.aborter.done
	}
	res := &Result{
		Verdict: s.verdict, Msg: s.msg, Stack: s.stack, Steps: s.steps, Points: s.points,
		Choices: s.choices, Hash: s.hash, IdleTicks: s.idle, Ticks: s.ticks,
		Threads: s.nthreads, MaxLive: s.maxLive, MainDone: s.mainDone, Trace: s.trace,
		Roles: map[string]int{},
	}
	for i, r := range s.roleNames {
		res.Roles[r] = s.roleCounts[i]
	}
	for _, t := range s.threads {
		if t.state != tsDone && t != s.aborter {
			res.Blocked = append(res.Blocked, s.describe(t))
		}
	}
	for _, t := range s.threads {
		if t == s.aborter {
			continue
		}
		select {
		case <-t.done:
			continue
		default:
		}
		s.cur = t
		t.wake <- struct{}{}
		<-t.done
	}
	s.gwg.Wait() // every goroutine of this execution has ended (also those that left the table when they exited)
	S = nil
	return res
}

func (s *Sched) newThread(role string, fn func()) *Thread {
	t := &Thread{ID: s.nextID, Role: role, wake: make(chan struct{}, 1), done: make(chan struct{}), fn: fn}
	s.nextID++
	s.nthreads++
	// (no map here: map assignment goes through a runtime hook that the race variant's detector sees)
	found := false
	for i := range s.roleNames {
		if s.roleNames[i] == role {
			s.roleCounts[i]++
			found = true
			break
		}
	}
	if !found {
		s.roleNames = append(s.roleNames, role)
		s.roleCounts = append(s.roleCounts, 1)
	}
	t.roleHash = strHash(role)
	t.hist = t.roleHash
	t.state = tsReady
	t.op.kind = opStart
	t.readySince = s.steps
	s.threads = append(s.threads, t)
	s.live++
	if s.live > s.maxLive {
		s.maxLive = s.live
	}
	s.gwg.Add(1)
	go t.run(s)
	return t
}

func (t *Thread) run(s *Sched) {
	defer s.gwg.Done()
	defer close(t.done)
	defer func() {
		r := recover()
		if s.aborting && s.aborter != t {
			return // released during abort; whatever happened in deferred code is irrelevant
		}
		if t.exiting {
			return
		}
		if r != nil {
			switch r.(type) {
			case abortPanic:
				return
			case fuelPanic:
				s.finish(t, VFuel, "loop exceeded iteration budget without reaching a visible operation", stackString())
				return
			}
			s.finish(t, VPanic, fmt.Sprint(r), stackString())
			return
		}
		// normal exit
		if raceOn {
			rrelmerge(s.tdTok)
		}
		t.state = tsDone
		s.live--
		// exited threads leave the table: sequential chunks run thousands of containers in one execution
		for i, u := range s.threads {
			if u == t {
				for j := i; j+1 < len(s.threads); j++ {
					s.threads[j] = s.threads[j+1]
				}
				s.threads[len(s.threads)-1] = nil
				s.threads = s.threads[:len(s.threads)-1]
				break
			}
		}
		s.doneHash = hmix(s.doneHash, t.roleHash, uint64(t.ID))
		if t.ID == 0 {
			s.mainDone = true
			s.finish(t, VNone, "", "")
			return
		}
		s.dispatch(nil)
	}()
	rdisable()
	<-t.wake
	renable()
	if s.aborting {
		t.exiting = true
		return
	}
	t.fn()
}

func stackString() string {
	buf := make([]byte, 16384)
	n := runtime.Stack(buf, false)
	return string(buf[:n])
}

// finish ends the execution with a verdict. Called by the running thread.
func (s *Sched) finish(t *Thread, verdict, msg, stack string) {
	if s.aborting {
		return
	}
	s.verdict, s.msg, s.stack = verdict, msg, stack
	s.aborting = true
	s.aborter = t
	if t != nil {
		t.exiting = true
	}
	close(s.finished)
}

// abortHere ends the execution from inside a shim operation of the running thread.
func (s *Sched) abortHere(t *Thread, verdict, msg string) {
	s.finish(t, verdict, msg, "")
	racq(s.tdTok)
	runtime.Goexit()
}

func cur() (*Sched, *Thread) {
	s := S
	if s == nil {
		panic("mcrt: operation outside mcrt.Run")
	}
	return s, s.cur
}

// visible announces operation o of the running thread, lets the scheduler
// pick who runs next, and returns once this thread has been chosen and its
// operation has been performed. Returns false if the thread is being torn
// down (the caller must return zero values).
func (s *Sched) visible(t *Thread) bool {
	t.fuel = 0
	s.steps++
	if s.steps > s.cfg.MaxSteps {
		s.abortHere(t, VLivelock, fmt.Sprintf("more than %d visible operations", s.cfg.MaxSteps))
	}
	if raceOn {
		t.curTok = newTok()
		rrel(t.curTok)
		rrelmerge(s.tdTok)
	}
	if s.completable(t) {
		t.state = tsReady
		t.readySince = s.steps
	} else {
		s.block(t)
	}
	s.dispatch(t)
	if raceOn {
		for _, k := range t.acq {
			racq(k)
		}
		t.acq = t.acq[:0]
	}
	if t.op.panicMsg != "" {
		m := t.op.panicMsg
		t.op.panicMsg = ""
		panic(m)
	}
	return true
}

func (s *Sched) completable(t *Thread) bool {
	o := &t.op
	switch o.kind {
	case opChan, opSelect:
		if o.hasDefault {
			return true
		}
		for i := range o.cases {
			if caseReady(&o.cases[i]) {
				return true
			}
		}
		return false
	case opWgWait:
		return o.wg.n == 0
	case opLock:
		return !o.mu.locked && o.mu.readers == 0
	case opRLock:
		return !o.mu.locked
	case opQuiesce:
		for _, u := range s.threads {
			if u != t && (u.state == tsReady) {
				return false
			}
		}
		return true
	}
	return true
}

func caseReady(c *scase) bool {
	k := c.c
	if k == nil {
		return false
	}
	if c.send {
		return k.closed || len(k.recvq) > 0 || len(k.buf) < k.cap
	}
	return len(k.buf) > 0 || len(k.sendq) > 0 || k.closed
}

// block enqueues t on everything its operation waits for.
func (s *Sched) block(t *Thread) {
	t.state = tsBlocked
	t.npcs = runtime.Callers(3, t.pcs[:])
	o := &t.op
	switch o.kind {
	case opChan, opSelect:
		for i := range o.cases {
			c := &o.cases[i]
			if c.c == nil {
				continue
			}
			w := &waiter{t: t, caseIdx: i, val: c.val}
			if c.send {
				c.c.sendq = append(c.c.sendq, w)
			} else {
				c.c.recvq = append(c.c.recvq, w)
			}
		}
	case opWgWait:
		o.wg.waiters = append(o.wg.waiters, t)
	case opLock, opRLock:
		o.mu.waiters = append(o.mu.waiters, t)
	case opQuiesce:
		// re-evaluated whenever nothing else is ready
	}
}

// wakeWith completes a blocked thread's channel operation on behalf of a partner.
func (s *Sched) wakeWith(w *waiter, val interface{}, ok bool, panicMsg string) {
	t := w.t
	o := &t.op
	for i := range o.cases {
		c := &o.cases[i]
		if c.c == nil {
			continue
		}
		if c.send {
			c.c.sendq = removeWaiter(c.c.sendq, t)
		} else {
			c.c.recvq = removeWaiter(c.c.recvq, t)
		}
	}
	o.chosen, o.val, o.ok, o.panicMsg = w.caseIdx, val, ok, panicMsg
	if s.cfg.SeenState != nil {
		s.woken = append(s.woken, t)
	}
	o.kind = opResume
	o.cases = nil
	t.state = tsReady
	t.readySince = s.steps
}

func removeWaiter(q []*waiter, t *Thread) []*waiter {
	for i, w := range q {
		if w.t == t {
			// (element-wise: the copy builtin and variadic append go through runtime hooks that the
			// race variant's detector sees even in this uninstrumented package)
			for j := i; j+1 < len(q); j++ {
				q[j] = q[j+1]
			}
			q[len(q)-1] = nil
			return q[:len(q)-1]
		}
	}
	return q
}

type alt struct {
	t       *Thread
	caseIdx int
	tick    bool
}

func (s *Sched) order(self *Thread) []*Thread {
	var rs []*Thread
	if s.steps > s.cfg.FairAfter {
		// fair tail: strict round-robin by time of becoming ready, the running
		// thread gets no preference. An execution that is still going after
		// MaxSteps under this regime is really unbounded activity.
		for _, t := range s.threads {
			if t.state == tsReady {
				rs = append(rs, t)
			}
		}
		sort.SliceStable(rs, func(i, j int) bool { return rs[i].readySince < rs[j].readySince })
		return rs
	}
	for _, t := range s.threads {
		if t.state == tsReady && t != self {
			rs = append(rs, t)
		}
	}
	switch s.cfg.Strategy {
	case StratFIFO:
		sort.SliceStable(rs, func(i, j int) bool { return rs[i].readySince < rs[j].readySince })
	case StratNewest:
		for i, j := 0, len(rs)-1; i < j; i, j = i+1, j-1 {
			rs[i], rs[j] = rs[j], rs[i]
		}
	}
	if self != nil && self.state == tsReady {
		out := make([]*Thread, 0, len(rs)+1)
		out = append(out, self)
		for _, r := range rs {
			out = append(out, r)
		}
		rs = out
	}
	return rs
}

func (s *Sched) alternatives(self *Thread) []alt {
	var alts []alt
	var quiesce *Thread
	for _, t := range s.order(self) {
		o := &t.op
		switch o.kind {
		case opChan, opSelect:
			n := 0
			for i := range o.cases {
				if caseReady(&o.cases[i]) {
					alts = append(alts, alt{t: t, caseIdx: i})
					n++
				}
			}
			if n == 0 {
				if o.hasDefault {
					alts = append(alts, alt{t: t, caseIdx: -1})
				} else {
					s.block(t) // was preempted before the operation and it can no longer complete
				}
			}
		case opQuiesce:
			quiesce = t
		default:
			if s.completable(t) {
				alts = append(alts, alt{t: t})
			} else {
				s.block(t)
			}
		}
	}
	if quiesce != nil && len(alts) == 0 {
		alts = append(alts, alt{t: quiesce})
		return alts // never combined with an early tick
	}
	if quiesce == nil {
		// a thread blocked in Quiesce is released only when nothing else can run
		for _, t := range s.threads {
			if t.state == tsBlocked && t.op.kind == opQuiesce && len(alts) == 0 {
				return []alt{{t: t}}
			}
		}
	}
	if s.nextTimer() != nil && (len(alts) == 0 || s.cfg.MaxTicks == 0 || s.early < s.cfg.MaxTicks) {
		alts = append(alts, alt{tick: true})
	}
	return alts
}

func (s *Sched) nextTimer() *timerEnt {
	var best *timerEnt
	for _, tm := range s.timers {
		if !tm.active {
			continue
		}
		if tm.c != nil && tm.period > 0 && len(tm.c.buf) >= tm.c.cap && len(tm.c.recvq) == 0 {
			continue // a tick that would be dropped changes nothing
		}
		if best == nil || tm.deadline < best.deadline {
			best = tm
		}
	}
	return best
}

func (s *Sched) fire(tm *timerEnt) {
	s.ticks++
	if tm.deadline > s.now {
		s.now = tm.deadline
	}
	if tm.period > 0 {
		tm.deadline = s.now + tm.period
	} else {
		tm.active = false
	}
	if tm.c != nil {
		v := epoch.Add(s.now)
		k := tm.c
		if len(k.recvq) > 0 {
			w := k.recvq[0]
			s.wakeWith(w, v, true, "")
		} else if len(k.buf) < k.cap {
			k.buf = append(k.buf, v)
		}
	}
	if tm.fn != nil {
		s.newThread("timer.func", tm.fn)
	}
}

// dispatch picks the next thread to run and transfers control to it. self is
// the calling thread (nil when the caller is exiting). Returns when self has
// been chosen.
func (s *Sched) dispatch(self *Thread) {
	for {
		alts := s.alternatives(self)
		if len(alts) == 0 {
			// nothing can run and no environment event is possible
			if self == nil {
				// exiting thread: need some goroutine to carry the verdict
				s.finish(nil, VDeadlock, "no thread enabled", "")
				return
			}
			s.abortHere(self, VDeadlock, "no thread enabled")
		}
		idx := 0
		s.points++
		if len(alts) > 1 {
			idx = s.chooser.Choose(len(alts))
			if idx < 0 || idx >= len(alts) {
				if self == nil {
					s.finish(nil, VHarness, fmt.Sprintf("choice %d out of range %d", idx, len(alts)), "")
					return
				}
				s.abortHere(self, VHarness, fmt.Sprintf("choice %d out of range %d", idx, len(alts)))
			}
			s.choices = append(s.choices, Choice{len(alts), idx})
		}
		a := alts[idx]
		if a.tick {
			if len(alts) == 1 {
				s.idle++
				if s.idle > s.cfg.MaxIdleTicks {
					msg := fmt.Sprintf("main not finished after %d idle environment ticks", s.cfg.MaxIdleTicks)
					if self == nil {
						s.finish(nil, VStarved, msg, "")
						return
					}
					s.abortHere(self, VStarved, msg)
				}
			}
			if len(alts) > 1 {
				s.early++
			}
			s.mix(uint64(1 << 40))
			if s.cfg.Trace {
				s.trace = append(s.trace, fmt.Sprintf("%d: tick", s.steps))
			}
			tm := s.nextTimer()
			if tm.c != nil {
				tm.c.hist = hmix(tm.c.hist, 0xfeed, 7)
			}
			s.fire(tm)
			if s.cfg.SeenState != nil && s.pruneHere(self) {
				return
			}
			continue
		}
		s.perform(a)
		if s.cfg.SeenState != nil && s.pruneHere(self) {
			return
		}
		next := a.t
		next.state = tsRunning
		s.cur = next
		if next == self {
			return
		}
		rdisable()
		next.wake <- struct{}{}
		if self == nil {
			renable()
			return
		}
		<-self.wake
		renable()
		if s.aborting {
			self.exiting = true
			racq(s.tdTok) // torn-down threads run their deferred calls after everything else
			runtime.Goexit()
		}
		return
	}
}

func (s *Sched) mix(v uint64) {
	s.hash ^= v
	s.hash *= 1099511628211
}

// perform executes the chosen alternative's operation on the modelled objects.
func (s *Sched) perform(a alt) {
	t := a.t
	o := &t.op
	var cid int
	okind := o.kind
	var ocore *core
	owg, omu := o.wg, o.mu
	if (o.kind == opChan || o.kind == opSelect) && a.caseIdx >= 0 {
		ocore = o.cases[a.caseIdx].c
	}
	if o.kind == opClose {
		ocore = o.c
	}
	if s.cfg.Trace {
		s.trace = append(s.trace, fmt.Sprintf("%d: T%d[%s] %s", s.steps, t.ID, t.Role, s.opString(t, a.caseIdx)))
	}
	switch o.kind {
	case opChan, opSelect:
		o.chosen = a.caseIdx
		if a.caseIdx >= 0 {
			c := &o.cases[a.caseIdx]
			k := c.c
			cid = k.id
			if c.send {
				switch {
				case k.closed:
					o.panicMsg = "send on closed channel"
				case len(k.recvq) > 0:
					if s.cfg.OnRendezvous != nil {
						s.cfg.OnRendezvous(t.Role, k.recvq[0].t.Role, k.name)
					}
					if raceOn {
						w := k.recvq[0]
						t.acq = append(t.acq, w.t.curTok)
						w.t.acq = append(w.t.acq, t.curTok)
					}
					s.wakeWith(k.recvq[0], c.val, true, "")
				default:
					k.buf = append(k.buf, c.val)
					if raceOn {
						k.btok = append(k.btok, t.curTok)
						if len(k.free) > 0 {
							t.acq = append(t.acq, k.free[0])
							k.free = k.free[1:]
						}
					}
				}
			} else {
				switch {
				case len(k.buf) > 0:
					o.val, o.ok = k.buf[0], true
					k.buf[0] = nil
					k.buf = k.buf[1:]
					if raceOn && len(k.btok) > 0 {
						t.acq = append(t.acq, k.btok[0])
						k.btok = k.btok[1:]
					}
					if len(k.sendq) > 0 {
						w := k.sendq[0]
						k.buf = append(k.buf, w.val)
						if raceOn {
							k.btok = append(k.btok, w.t.curTok)
							w.t.acq = append(w.t.acq, t.curTok) // this receive freed the slot the blocked send completes into
						}
						s.wakeWith(w, nil, false, "")
					} else if raceOn {
						k.free = append(k.free, t.curTok)
					}
				case len(k.sendq) > 0:
					w := k.sendq[0]
					o.val, o.ok = w.val, true
					if s.cfg.OnRendezvous != nil {
						s.cfg.OnRendezvous(w.t.Role, t.Role, k.name)
					}
					if raceOn {
						t.acq = append(t.acq, w.t.curTok)
						w.t.acq = append(w.t.acq, t.curTok)
					}
					s.wakeWith(w, nil, false, "")
				default: // closed
					o.val, o.ok = nil, false
					if raceOn {
						t.acq = append(t.acq, k.closeTok)
					}
				}
			}
		}
		o.cases = nil
	case opClose:
		k := o.c
		switch {
		case k == nil:
			o.panicMsg = "close of nil channel"
		case k.closed:
			o.panicMsg = "close of closed channel"
		default:
			cid = k.id
			k.closed = true
			k.closeTok = t.curTok
			for len(k.recvq) > 0 {
				if raceOn {
					k.recvq[0].t.acq = append(k.recvq[0].t.acq, t.curTok)
				}
				s.wakeWith(k.recvq[0], nil, false, "")
			}
			for len(k.sendq) > 0 {
				s.wakeWith(k.sendq[0], nil, false, "send on closed channel")
			}
		}
	case opWgAdd:
		wg := o.wg
		if o.n > 0 && wg.n == 0 && len(wg.returning) > 0 {
			o.panicMsg = "sync: WaitGroup is reused before previous Wait has returned"
		}
		wg.n += o.n
		if raceOn && o.n < 0 {
			wg.toks = append(wg.toks, t.curTok)
		}
		if wg.n < 0 {
			o.panicMsg = "sync: negative WaitGroup counter"
		} else if wg.n == 0 {
			for _, w := range wg.waiters {
				w.state = tsReady
				w.op.kind = opResume
				w.readySince = s.steps
				if s.cfg.SeenState != nil {
					s.woken = append(s.woken, w)
				}
				if raceOn {
					w.acq = appendToks(w.acq, wg.toks)
				}
				wg.returning = append(wg.returning, w)
			}
			wg.waiters = nil
		}
	case opWgWait:
		if raceOn {
			t.acq = appendToks(t.acq, o.wg.toks)
		}
	case opLock:
		o.mu.locked = true
		if raceOn {
			t.acq = appendToks(appendToks(t.acq, o.mu.toks), o.mu.rtoks)
			o.mu.rtoks = nil
		}
	case opRLock:
		o.mu.readers++
		if raceOn {
			t.acq = appendToks(t.acq, o.mu.toks)
		}
	case opUnlock:
		if !o.mu.locked {
			o.panicMsg = "sync: unlock of unlocked mutex"
		}
		o.mu.locked = false
		if raceOn {
			o.mu.toks = []*tok{t.curTok}
		}
		s.wakeLockers(o.mu)
	case opRUnlock:
		if o.mu.readers <= 0 {
			o.panicMsg = "sync: RUnlock of unlocked RWMutex"
		} else {
			o.mu.readers--
		}
		if raceOn {
			o.mu.rtoks = append(o.mu.rtoks, t.curTok)
		}
		s.wakeLockers(o.mu)
	}
	s.mix(uint64(t.ID)<<32 | uint64(o.kind)<<24 | uint64(cid&0xffff)<<4 | uint64(a.caseIdx&0xf))
	if s.cfg.SeenState != nil {
		s.recordHist(t, a, okind, ocore, owg, omu)
	}
}

// recordHist extends the per-thread and per-object operation histories (state keys).
func (s *Sched) recordHist(t *Thread, a alt, kind opKind, k *core, wg *WaitGroup, mu *Mutex) {
	var oh *uint64
	var oid uint64
	switch {
	case k != nil:
		oh, oid = &k.hist, uint64(k.id)+1
	case wg != nil:
		oh, oid = &wg.hist, 1<<20
	case mu != nil:
		oh, oid = &mu.hist, 1<<21
	}
	res := uint64(a.caseIdx+2)<<8 | uint64(kind)
	if t.op.ok {
		res |= 1 << 16
	}
	if t.op.panicMsg != "" {
		res |= 1 << 17
	}
	if oh != nil {
		if *oh == 0 {
			s.objs = append(s.objs, oh)
			if wg != nil || mu != nil {
				oid += uint64(len(s.objs))
			}
			*oh = oid * 0x9e3779b97f4a7c15
		}
		*oh = hmix(*oh, t.hist, res)
		t.hist = hmix(t.hist, *oh, res)
		for _, w := range s.woken {
			w.hist = hmix(w.hist, *oh, uint64(w.op.chosen+2)<<8|0x77)
		}
	} else {
		t.hist = hmix(t.hist, oid, res)
	}
	s.woken = s.woken[:0]
}

func hmix(h, a, b uint64) uint64 {
	h ^= a + 0x9e3779b97f4a7c15 + (h << 6) + (h >> 2)
	h *= 0xff51afd7ed558ccd
	h ^= b + (h >> 33)
	h *= 0xc4ceb9fe1a85ec53
	return h ^ (h >> 29)
}

func strHash(s string) uint64 {
	h := uint64(1469598103934665603)
	for i := 0; i < len(s); i++ {
		h ^= uint64(s[i])
		h *= 1099511628211
	}
	return h
}

// stateKey combines the histories of all live threads (with their scheduling state) and of all objects.
func (s *Sched) stateKey() uint64 {
	k := s.doneHash
	for _, t := range s.threads {
		if t.state == tsDone {
			continue
		}
		st := uint64(t.state)
		if t.state == tsRunning {
			st = tsReady
		}
		k += hmix(t.hist, uint64(t.ID)<<8|st, uint64(t.op.kind))
	}
	for _, oh := range s.objs {
		k += hmix(*oh, 0xbeef, 1)
	}
	return hmix(k, uint64(s.nthreads), uint64(s.early))
}

// pruneHere asks the explorer whether the state just reached is known; if so the execution ends.
func (s *Sched) pruneHere(self *Thread) bool {
	if s.cfg.Replaying != nil && s.cfg.Replaying() {
		return false
	}
	if !s.cfg.SeenState(s.stateKey()) {
		return false
	}
	if self == nil {
		s.finish(nil, VPruned, "", "")
		return true
	}
	s.abortHere(self, VPruned, "")
	return true
}

func (s *Sched) wakeLockers(mu *Mutex) {
	// every waiter retries its Lock when scheduled
	for _, w := range mu.waiters {
		w.state = tsReady
		w.readySince = s.steps
	}
	mu.waiters = nil
}

func (s *Sched) opString(t *Thread, caseIdx int) string {
	o := &t.op
	switch o.kind {
	case opChan, opSelect:
		if caseIdx < 0 {
			return "select default"
		}
		if caseIdx < len(o.cases) {
			c := o.cases[caseIdx]
			d := "recv"
			if c.send {
				d = "send"
			}
			return fmt.Sprintf("%s %s#%d", d, c.c.name, c.c.id)
		}
	case opClose:
		if o.c != nil {
			return fmt.Sprintf("close %s#%d", o.c.name, o.c.id)
		}
	}
	return opNames[o.kind]
}

func (s *Sched) describe(t *Thread) BlockedInfo {
	b := BlockedInfo{ID: t.ID, Role: t.Role, Op: opNames[t.op.kind]}
	if t.state == tsReady {
		b.Op = "ready:" + b.Op
	}
	for _, c := range t.op.cases {
		if c.c == nil {
			continue
		}
		d := "recv "
		if c.send {
			d = "send "
		}
		b.Chans = append(b.Chans, d+c.c.name)
	}
	if t.npcs > 0 && t.state == tsBlocked {
		frames := runtime.CallersFrames(t.pcs[:t.npcs])
		for {
			f, more := frames.Next()
			fn := f.Function
			if fn != "" && !strings.HasPrefix(fn, "mcrt.") && !strings.HasPrefix(fn, "mcrt/") && !strings.HasPrefix(fn, "runtime.") {
				b.Stack = append(b.Stack, shortFunc(fn))
			}
			if !more {
				break
			}
		}
		if len(b.Stack) > 0 {
			b.Func = b.Stack[0]
		}
	}
	return b
}

func shortFunc(fn string) string {
	fn = strings.TrimPrefix(fn, "github.com/vbauerster/mpb/v8/")
	fn = strings.TrimPrefix(fn, "github.com/vbauerster/mpb/")
	return fn
}

// ---------------------------------------------------------------------------
// API used by rewritten code

// Go starts fn as a new thread (the rewrite of a go statement).
func Go(role string, fn func()) {
	s, t := cur()
	if t.exiting {
		return
	}
	nt := s.newThread(role, fn)
	_ = nt
}

// GoClient starts a harness (client) thread.
func GoClient(role string, fn func()) {
	s, t := cur()
	if t.exiting {
		return
	}
	nt := s.newThread(role, fn)
	nt.Client = true
}

// Fuel is inserted at the top of every loop body by mcgen.
func Fuel() {
	s := S
	if s == nil {
		return
	}
	t := s.cur
	t.fuel++
	if t.fuel > s.cfg.FuelLimit && !t.exiting {
		panic(fuelPanic{})
	}
}

// ResetFuel restarts the loop budget (sequential harnesses call it per case).
func ResetFuel() {
	if s := S; s != nil {
		s.cur.fuel = 0
	}
}

// Step returns the number of visible operations executed so far; harnesses
// use it as a logical timestamp for invoke/return events.
func Step() int {
	if S == nil {
		return 0
	}
	return S.steps
}

// Ticks returns the number of environment timer events so far.
func Ticks() int { return S.ticks }

// CurrentID returns the id of the running thread.
func CurrentID() int { return S.cur.ID }

// CurrentRole returns the role of the running thread.
func CurrentRole() string { return S.cur.Role }

// Yield is an explicit scheduling point with no effect.
func Yield() {
	s, t := cur()
	if t.exiting {
		return
	}
	t.op = op{kind: opYield}
	s.visible(t)
}

// Quiesce blocks the calling thread until no other thread can run without a
// further environment event, then returns the threads that have not exited.
func Quiesce() []BlockedInfo {
	s, t := cur()
	if t.exiting {
		return nil
	}
	t.op = op{kind: opQuiesce}
	s.visible(t)
	var out []BlockedInfo
	for _, u := range s.threads {
		if u != t && u.state != tsDone {
			out = append(out, s.describe(u))
		}
	}
	return out
}

// Alive returns descriptions of all threads other than the caller that have not exited.
func Alive() []BlockedInfo {
	s, t := cur()
	var out []BlockedInfo
	for _, u := range s.threads {
		if u != t && u.state != tsDone {
			out = append(out, s.describe(u))
		}
	}
	return out
}

// Fail ends the execution with a harness-defined verdict (used by oracles
// evaluated inside the execution).
func Fail(verdict, msg string) {
	s, t := cur()
	if t.exiting {
		return
	}
	s.abortHere(t, verdict, msg)
}

// Now is the virtual clock.
func Now() time.Time {
	if S == nil {
		return epoch
	}
	return epoch.Add(S.now)
}

// Advance moves the virtual clock forward without firing timers (used by
// harness callbacks to model an operation that takes time).
func Advance(d time.Duration) {
	if S != nil {
		S.now += d
	}
}

// SortedKeys supports the deterministic rewrite of map iteration.
func SortedKeys[K interface {
	~int | ~int8 | ~int16 | ~int32 | ~int64 | ~uint | ~uint8 | ~uint16 | ~uint32 | ~uint64 | ~uintptr | ~float32 | ~float64 | ~string
}, V any](m map[K]V) []K {
	keys := make([]K, 0, len(m))
	for k := range m {
		keys = append(keys, k)
	}
	sort.Slice(keys, func(i, j int) bool { return keys[i] < keys[j] })
	return keys
}

// IsFuel reports whether a recovered panic value is the loop-budget sentinel.
func IsFuel(r interface{}) bool {
	_, ok := r.(fuelPanic)
	return ok
}

func appendToks(dst, src []*tok) []*tok {
	for _, k := range src {
		dst = append(dst, k)
	}
	return dst
}
