#!/bin/bash
# Builds the race litmus binary and checks that ThreadSanitizer reports exactly the scenarios that race
# under the modelled happens-before relation.
export GOFLAGS=-mod=mod GOPROXY=off GOSUMDB=off GOTOOLCHAIN=local
cd /verif/mcrt
B=$(mktemp -d /var/tmp/racelitmus.XXXX)
go build -race -gcflags='mcrt=-race=false' -gcflags='mcrt/explore=-race=false' -gcflags='mcrt/xatomic=-race=false' -gcflags='mcrt/xsync=-race=false' -o $B/rl ./racelitmus || exit 2
rc=0
for s in race-plain race-wrong-direction race-select-unchosen race-mutex-one-side race-mutex-third-thread ok-unbuffered ok-unbuffered-reverse ok-buffered ok-buffered-slot ok-close ok-waitgroup ok-mutex ok-context ok-go ok-nested-spawn ok-atomic-publish race-atomic-unrelated ok-cond-signal ok-pool-handoff; do
  out=$(GORACE="halt_on_error=0" $B/rl $s 2>&1)
  if echo "$out" | grep -q "DATA RACE"; then got=race; else got=ok; fi
  want=${s%%-*}
  if [ "$got" != "$want" ]; then echo "race litmus $s: want $want got $got"; rc=1; fi
done
rm -rf $B
[ $rc = 0 ] && echo "race litmus ok (19 scenarios)"
exit $rc
