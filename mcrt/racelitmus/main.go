// racelitmus: litmus programs for the race variant of mcrt. Built with
//
//	go build -race -gcflags='mcrt=-race=false' -gcflags='mcrt/explore=-race=false'
//
// this package IS instrumented; each scenario either must or must not make
// ThreadSanitizer report a race between its two accesses to x, depending only
// on the modelled synchronisation (the scheduler's own hand-offs are hidden).
package main

import (
	"fmt"
	"os"

	"mcrt"
	"mcrt/xatomic"
)

var x, y int

func run(body func()) {
	mcrt.Run(mcrt.Config{}, mcrt.ChooserFunc(func(int) int { return 0 }), body)
}

var scenarios = map[string]func(){
	// expected RACE: two threads write x, ordered only by the scheduler
	"race-plain": func() {
		done := mcrt.Make[int](2, "done")
		mcrt.Go("a", func() { x = 1; mcrt.Yield(); done.Send(1) })
		mcrt.Go("b", func() { mcrt.Yield(); x = 2; done.Send(2) })
		done.Recv()
		done.Recv()
	},
	// expected RACE: the channel communication goes the wrong way (writer after send, reader before recv)
	"race-wrong-direction": func() {
		c := mcrt.Make[int](0, "c")
		mcrt.Go("a", func() { c.Send(1); x = 1 })
		_ = x
		c.Recv()
		mcrt.Yield()
		x = 3
	},
	// expected no race: unbuffered send happens-before receive completes
	"ok-unbuffered": func() {
		c := mcrt.Make[int](0, "c")
		mcrt.Go("a", func() { x = 1; c.Send(1) })
		c.Recv()
		x = 2
	},
	// expected no race: receive happens-before the send completes (unbuffered)
	"ok-unbuffered-reverse": func() {
		c := mcrt.Make[int](0, "c")
		mcrt.Go("a", func() { c.Send(1); x = 1 })
		x = 2
		c.Recv()
	},
	"ok-buffered": func() {
		c := mcrt.Make[int](1, "c")
		mcrt.Go("a", func() { x = 1; c.Send(1) })
		c.Recv()
		x = 2
	},
	// expected no race: the k-th receive happens-before the (k+C)-th send completes
	"ok-buffered-slot": func() {
		c := mcrt.Make[int](1, "c")
		c.Send(0)
		mcrt.Go("a", func() { c.Send(1); x = 1 })
		x = 2
		c.Recv()
		c.Recv()
	},
	"ok-close": func() {
		c := mcrt.Make[int](0, "c")
		mcrt.Go("a", func() { x = 1; c.Close() })
		c.Recv()
		x = 2
	},
	"ok-waitgroup": func() {
		var wg mcrt.WaitGroup
		wg.Add(1)
		mcrt.Go("a", func() { x = 1; wg.Done() })
		wg.Wait()
		x = 2
	},
	"ok-mutex": func() {
		var mu mcrt.Mutex
		d := mcrt.Make[int](0, "d")
		mcrt.Go("a", func() { mu.Lock(); x = 1; mu.Unlock(); d.Send(1) })
		mu.Lock()
		x = 2
		mu.Unlock()
		d.Recv()
	},
	// one side takes the lock, the other does not: the lock orders nothing for the reader
	"race-mutex-one-side": func() {
		var mu mcrt.Mutex
		d := mcrt.Make[int](0, "d")
		mcrt.Go("a", func() { mu.Lock(); x = 1; mu.Unlock(); d.Send(1) })
		_ = x
		d.Recv()
	},
	// the unlocked read comes from a third thread that never talks to the writer
	"race-mutex-third-thread": func() {
		var mu mcrt.Mutex
		d := mcrt.Make[int](0, "d")
		e := mcrt.Make[int](0, "e")
		mcrt.Go("a", func() { mu.Lock(); x = 1; mu.Unlock(); d.Send(1) })
		mcrt.Go("b", func() { y = x; e.Send(1) })
		mu.Lock()
		mu.Unlock()
		d.Recv()
		e.Recv()
	},
	"ok-context": func() {
		ctx, cancel := mcrt.WithCancel(mcrt.Background())
		mcrt.Go("a", func() { x = 1; cancel() })
		ctx.Done().Recv()
		x = 2
	},
	// threads spawned by different threads: the scheduler's own bookkeeping must stay invisible to the detector
	"ok-nested-spawn": func() {
		d := mcrt.Make[int](0, "d")
		for i := 0; i < 3; i++ {
			mcrt.Go("outer", func() {
				mcrt.Go("inner-a", func() { d.Send(1) })
				mcrt.Go("inner-b", func() { d.Send(1) })
			})
		}
		for i := 0; i < 6; i++ {
			d.Recv()
		}
	},
	"ok-go": func() {
		x = 1
		d := mcrt.Make[int](0, "d")
		mcrt.Go("a", func() { x = 2; d.Send(1) })
		d.Recv()
	},
	// expected RACE: select takes the other case, so the unchosen channel synchronises nothing
	"race-select-unchosen": func() {
		a, b := mcrt.Make[int](1, "a"), mcrt.Make[int](0, "b")
		mcrt.Go("w", func() { x = 1; a.Send(1) })
		mcrt.Go("h", func() { b.Send(1) })
		ca, cb := mcrt.RecvCase(a), mcrt.RecvCase(b)
		_ = ca
		mcrt.Select(false, cb) // only b is waited for; w's value stays in a's buffer, so w synchronises with nobody
		x = 2
	},
}

func init() {
	// atomics: an operation on an atomic variable is ordered after every earlier operation on the same variable
	scenarios["ok-atomic-publish"] = func() {
		var f xatomic.Int32
		done := mcrt.Make[int](2, "done")
		mcrt.Go("a", func() { x = 1; f.Store(1); done.Send(1) })
		mcrt.Go("b", func() {
			if f.Load() == 1 {
				x = 2
			}
			done.Send(2)
		})
		done.Recv()
		done.Recv()
	}
	// expected RACE: the reader looks at another atomic variable, which orders nothing
	scenarios["race-atomic-unrelated"] = func() {
		var f, g xatomic.Int32
		done := mcrt.Make[int](2, "done")
		mcrt.Go("a", func() { x = 1; f.Store(1); done.Send(1) })
		mcrt.Go("b", func() {
			if g.Load() == 0 {
				x = 2
			}
			done.Send(2)
		})
		done.Recv()
		done.Recv()
	}
	scenarios["ok-cond-signal"] = func() {
		var mu mcrt.Mutex
		c := mcrt.NewCond(&mu)
		ready := false
		mcrt.Go("a", func() { x = 1; mu.Lock(); ready = true; mu.Unlock(); c.Signal() })
		mu.Lock()
		for !ready {
			c.Wait()
		}
		mu.Unlock()
		x = 2
	}
	scenarios["ok-pool-handoff"] = func() {
		var p mcrt.Pool
		done := mcrt.Make[int](2, "done")
		mcrt.Go("a", func() { v := new(int); *v = 1; p.Put(v); done.Send(1) })
		mcrt.Go("b", func() {
			if v, ok := p.Get().(*int); ok {
				*v = 2
			}
			done.Send(2)
		})
		done.Recv()
		done.Recv()
	}
}

func main() {
	f := scenarios[os.Args[1]]
	if f == nil {
		fmt.Println("unknown scenario")
		os.Exit(2)
	}
	run(f)
	fmt.Println("done", x)
}
