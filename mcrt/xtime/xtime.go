// Package xtime replaces the clock-dependent part of "time" in rewritten code.
package xtime

import (
	"mcrt"
	"time"
)

type Ticker = mcrt.Ticker
type Timer = mcrt.Timer

func Now() time.Time                              { return mcrt.Now() }
func Since(t time.Time) time.Duration             { return mcrt.Since(t) }
func Until(t time.Time) time.Duration             { return mcrt.Until(t) }
func Sleep(d time.Duration)                       { mcrt.Sleep(d) }
func NewTicker(d time.Duration) *Ticker           { return mcrt.NewTicker(d) }
func NewTimer(d time.Duration) *Timer             { return mcrt.NewTimer(d) }
func After(d time.Duration) *mcrt.Chan[time.Time] { return mcrt.After(d) }
func Tick(d time.Duration) *mcrt.Chan[time.Time]  { return mcrt.Tick(d) }
func AfterFunc(d time.Duration, f func()) *Timer  { return mcrt.AfterFunc(d, f) }
