//go:build race

package mcrt

import (
	"runtime"
	"unsafe"
)

// Race variant (DESIGN.md 2.4): the cooperative hand-offs are hidden from the
// race detector and the happens-before edges of the Go memory model are
// re-created from the modelled operations, so ThreadSanitizer judges every
// explored schedule by its own synchronisation, not by the scheduler's.

const raceOn = true

type tok struct{ _ [8]byte }

func newTok() *tok { return new(tok) }
func rdisable()    { runtime.RaceDisable() }
func renable()     { runtime.RaceEnable() }
func racq(p *tok) {
	if p != nil {
		runtime.RaceAcquire(unsafe.Pointer(p))
	}
}
func rrel(p *tok)      { runtime.RaceRelease(unsafe.Pointer(p)) }
func rrelmerge(p *tok) { runtime.RaceReleaseMerge(unsafe.Pointer(p)) }
