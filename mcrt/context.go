package mcrt

import (
	stdctx "context"
	"time"
)

// Context mirrors context.Context with Done returning a modelled channel.
type Context interface {
	Deadline() (deadline time.Time, ok bool)
	Done() *Chan[struct{}]
	Err() error
	Value(key interface{}) interface{}
}

type CancelFunc func()

var Canceled = stdctx.Canceled
var DeadlineExceeded = stdctx.DeadlineExceeded

type emptyCtx struct{}

func (emptyCtx) Deadline() (time.Time, bool)   { return time.Time{}, false }
func (emptyCtx) Done() *Chan[struct{}]         { return nil }
func (emptyCtx) Err() error                    { return nil }
func (emptyCtx) Value(interface{}) interface{} { return nil }

func Background() Context { return emptyCtx{} }
func TODO() Context       { return emptyCtx{} }

type cancelCtx struct {
	parent   Context
	done     *Chan[struct{}]
	err      error
	cause    error
	children []*cancelCtx
	deadline time.Time
	hasDl    bool
	timer    *timerEnt
}

func (c *cancelCtx) Deadline() (time.Time, bool) {
	if c.hasDl {
		return c.deadline, true
	}
	return c.parent.Deadline()
}
func (c *cancelCtx) Done() *Chan[struct{}]           { return c.done }
func (c *cancelCtx) Err() error                      { return c.err }
func (c *cancelCtx) Value(k interface{}) interface{} { return c.parent.Value(k) }

func parentCancelCtx(p Context) *cancelCtx {
	for {
		switch x := p.(type) {
		case *cancelCtx:
			return x
		case *valueCtx:
			p = x.Context
		default:
			return nil
		}
	}
}

func WithCancel(parent Context) (Context, CancelFunc) {
	c := newCancelCtx(parent)
	return c, func() { c.cancel(Canceled) }
}

func newCancelCtx(parent Context) *cancelCtx {
	if parent == nil {
		panic("cannot create context from nil parent")
	}
	c := &cancelCtx{parent: parent, done: Make[struct{}](0, "ctx.done")}
	if p := parentCancelCtx(parent); p != nil {
		if p.err != nil {
			// parent already cancelled: child is born cancelled
			c.err = p.err
			c.cause = p.cause
			c.done.k.closed = true
		} else {
			p.children = append(p.children, c)
		}
	} else if parent.Done() != nil {
		// foreign context: propagate through a watcher thread, as context does
		Go("ctx.propagate", func() {
			switch Select(false, RecvCase(parent.Done()), RecvCase(c.done)) {
			case 0:
				c.cancel(parent.Err())
			}
		})
	}
	return c
}

// cancel closes c's done channel and then every descendant's, each as a
// separate visible operation of the calling thread (context.cancelCtx.cancel
// closes them one by one under per-context locks).
func (c *cancelCtx) cancel(err error) {
	s, t := cur()
	if t.exiting {
		return
	}
	// scheduling point before the cancellation takes effect
	t.op = op{kind: opCancel}
	s.visible(t)
	c.cancelLocked(s, t, err, true)
}

func (c *cancelCtx) cancelLocked(s *Sched, t *Thread, err error, first bool) {
	if !first {
		t.op = op{kind: opCancel}
		s.visible(t)
	}
	if c.err != nil {
		return
	}
	c.err = err
	if c.cause == nil {
		if pc := parentCancelCtx(c.parent); pc != nil && pc.err != nil && pc.cause != nil {
			c.cause = pc.cause
		} else {
			c.cause = err
		}
	}
	if c.timer != nil {
		c.timer.active = false
	}
	// close without a further scheduling point: err and done change together
	k := c.done.k
	k.closed = true
	k.closeTok = t.curTok
	if s.cfg.SeenState != nil {
		if k.hist == 0 {
			s.objs = append(s.objs, &k.hist)
		}
		k.hist = hmix(k.hist+1, t.hist, 0xc105e)
		t.hist = hmix(t.hist, k.hist, 0xc105e)
	}
	for len(k.recvq) > 0 {
		if raceOn {
			k.recvq[0].t.acq = append(k.recvq[0].t.acq, t.curTok)
		}
		w := k.recvq[0].t
		s.wakeWith(k.recvq[0], nil, false, "")
		if s.cfg.SeenState != nil {
			w.hist = hmix(w.hist, k.hist, 0x77)
		}
	}
	s.woken = s.woken[:0]
	kids := c.children
	c.children = nil
	if s.cfg.ReverseCancel {
		for i := len(kids) - 1; i >= 0; i-- {
			kids[i].cancelLocked(s, t, err, false)
		}
	} else {
		for _, k := range kids {
			k.cancelLocked(s, t, err, false)
		}
	}
	if p := parentCancelCtx(c.parent); p != nil {
		for i, k := range p.children {
			if k == c {
				nc := make([]*cancelCtx, 0, len(p.children))
				for j, x := range p.children {
					if j != i {
						nc = append(nc, x)
					}
				}
				p.children = nc
				break
			}
		}
	}
}

func WithDeadline(parent Context, d time.Time) (Context, CancelFunc) {
	c := newCancelCtx(parent)
	c.deadline, c.hasDl = d, true
	s, _ := cur()
	tm := &timerEnt{id: len(s.timers), deadline: d.Sub(epoch), active: true}
	tm.fn = func() { c.cancel(DeadlineExceeded) }
	c.timer = tm
	s.timers = append(s.timers, tm)
	return c, func() { c.cancel(Canceled) }
}

func WithTimeout(parent Context, d time.Duration) (Context, CancelFunc) {
	return WithDeadline(parent, Now().Add(d))
}

type valueCtx struct {
	Context
	key, val interface{}
}

func (c *valueCtx) Value(k interface{}) interface{} {
	if k == c.key {
		return c.val
	}
	return c.Context.Value(k)
}

func WithValue(parent Context, key, val interface{}) Context {
	return &valueCtx{parent, key, val}
}

// CancelCauseFunc mirrors context.CancelCauseFunc.
type CancelCauseFunc func(cause error)

func WithCancelCause(parent Context) (Context, CancelCauseFunc) {
	c := newCancelCtx(parent)
	return c, func(cause error) {
		if c.err == nil && c.cause == nil {
			c.cause = cause
		}
		c.cancel(Canceled)
	}
}

// Cause mirrors context.Cause.
func Cause(c Context) error {
	if cc := parentCancelCtx(c); cc != nil {
		if cc.cause != nil {
			return cc.cause
		}
		return cc.err
	}
	return c.Err()
}

type withoutCancelCtx struct{ Context }

func (withoutCancelCtx) Deadline() (time.Time, bool) { return time.Time{}, false }
func (withoutCancelCtx) Done() *Chan[struct{}]       { return nil }
func (withoutCancelCtx) Err() error                  { return nil }

// WithoutCancel mirrors context.WithoutCancel.
func WithoutCancel(parent Context) Context { return withoutCancelCtx{parent} }

// AfterFunc mirrors context.AfterFunc: f runs in a thread of its own once ctx is done, unless stop was called first.
func CtxAfterFunc(ctx Context, f func()) (stop func() bool) {
	stopCh := Make[struct{}](0, "ctx.afterfunc.stop")
	fired, stopped := false, false
	Go("ctx.afterfunc", func() {
		if Select(false, RecvCase(ctx.Done()), RecvCase(stopCh)) == 0 && !stopped {
			fired = true
			f()
		}
	})
	return func() bool {
		if fired || stopped {
			return false
		}
		stopped = true
		stopCh.Close()
		return true
	}
}
