// Package xcontext replaces "context" in rewritten code.
package xcontext

import (
	"mcrt"
	"time"
)

type Context = mcrt.Context
type CancelFunc = mcrt.CancelFunc

var Canceled = mcrt.Canceled
var DeadlineExceeded = mcrt.DeadlineExceeded

func Background() Context                                          { return mcrt.Background() }
func TODO() Context                                                { return mcrt.TODO() }
func WithCancel(p Context) (Context, CancelFunc)                   { return mcrt.WithCancel(p) }
func WithDeadline(p Context, d time.Time) (Context, CancelFunc)    { return mcrt.WithDeadline(p, d) }
func WithTimeout(p Context, d time.Duration) (Context, CancelFunc) { return mcrt.WithTimeout(p, d) }
func WithValue(p Context, k, v interface{}) Context                { return mcrt.WithValue(p, k, v) }

type CancelCauseFunc = mcrt.CancelCauseFunc

func WithCancelCause(p Context) (Context, CancelCauseFunc) { return mcrt.WithCancelCause(p) }
func Cause(c Context) error                                { return mcrt.Cause(c) }
func WithoutCancel(p Context) Context                      { return mcrt.WithoutCancel(p) }
func AfterFunc(c Context, f func()) (stop func() bool)     { return mcrt.CtxAfterFunc(c, f) }
