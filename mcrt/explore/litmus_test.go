package explore

import (
	"fmt"
	"sort"
	"strings"
	"testing"

	"mcrt"
)

func outcomes(t *testing.T, bound int, body func(log func(string))) (map[string]int, *Stats) {
	all := map[string]int{}
	var last *Stats
	for strat := 0; strat < 3; strat++ {
		exec := func(ch mcrt.Chooser, cfg mcrt.Config) *Outcome {
			var obs []string
			res := mcrt.Run(cfg, ch, func() { body(func(s string) { obs = append(obs, s) }) })
			o := strings.Join(obs, ",")
			if res.Verdict != "" {
				o += "!" + res.Verdict
			}
			return &Outcome{Res: res, Obs: o}
		}
		st := Explore(exec, Options{Bound: bound, Strategy: strat})
		if st.Nondet != "" {
			t.Fatalf("nondeterminism: %s", st.Nondet)
		}
		for k, v := range st.Distinct {
			all[k] += v
		}
		last = st
	}
	return all, last
}

func keys(m map[string]int) string {
	var ks []string
	for k := range m {
		ks = append(ks, k)
	}
	sort.Strings(ks)
	return strings.Join(ks, " | ")
}

func TestUnbufferedOrder(t *testing.T) {
	got, st := outcomes(t, 3, func(log func(string)) {
		c := mcrt.Make[int](0, "c")
		mcrt.Go("a", func() { c.Send(1) })
		mcrt.Go("b", func() { c.Send(2) })
		x, y := c.Recv(), c.Recv()
		log(fmt.Sprint(x, y))
	})
	if keys(got) != "1 2 | 2 1" {
		t.Fatalf("got %s", keys(got))
	}
	t.Logf("execs=%d", st.Execs)
}

func TestDeadlock(t *testing.T) {
	got, _ := outcomes(t, 1, func(log func(string)) {
		c := mcrt.Make[int](0, "c")
		c.Recv()
	})
	if keys(got) != "!DEADLOCK" {
		t.Fatalf("got %s", keys(got))
	}
}

func TestSelectBothReady(t *testing.T) {
	got, _ := outcomes(t, 2, func(log func(string)) {
		a, b := mcrt.Make[int](1, "a"), mcrt.Make[int](1, "b")
		a.Send(1)
		b.Send(2)
		ca, cb := mcrt.RecvCase(a), mcrt.RecvCase(b)
		switch mcrt.Select(false, ca, cb) {
		case 0:
			log(fmt.Sprint("a", ca.Val()))
		case 1:
			log(fmt.Sprint("b", cb.Val()))
		}
	})
	if keys(got) != "a1 | b2" {
		t.Fatalf("got %s", keys(got))
	}
}

func TestBufferedFIFOBlockedSender(t *testing.T) {
	// a blocked sender's value enters the buffer ahead of any later sender
	got, _ := outcomes(t, 3, func(log func(string)) {
		c := mcrt.Make[int](1, "c")
		c.Send(0)
		wg := &mcrt.WaitGroup{}
		wg.Add(1)
		mcrt.Go("s1", func() { wg.Done(); c.Send(1) })
		wg.Wait()
		x := c.Recv()
		y := c.Recv()
		log(fmt.Sprint(x, y))
	})
	if keys(got) != "0 1" {
		t.Fatalf("got %s", keys(got))
	}
}

func TestCloseWakes(t *testing.T) {
	got, _ := outcomes(t, 2, func(log func(string)) {
		c := mcrt.Make[int](0, "c")
		d := mcrt.Make[string](0, "d")
		mcrt.Go("r", func() { _, ok := c.Recv2(); d.Send(fmt.Sprint(ok)) })
		c.Close()
		log(d.Recv())
	})
	if keys(got) != "false" {
		t.Fatalf("got %s", keys(got))
	}
}

func TestSendOnClosedPanics(t *testing.T) {
	got, _ := outcomes(t, 2, func(log func(string)) {
		c := mcrt.Make[int](0, "c")
		mcrt.Go("s", func() { c.Send(1) })
		c.Close()
		mcrt.Quiesce()
	})
	// either the sender blocks first and is woken by close with a panic, or it sends on the closed channel
	if keys(got) != "!PANIC" {
		t.Fatalf("got %s", keys(got))
	}
}

func TestTickerAndContext(t *testing.T) {
	got, _ := outcomes(t, 2, func(log func(string)) {
		ctx, cancel := mcrt.WithCancel(mcrt.Background())
		tk := mcrt.NewTicker(10)
		n := 0
		done := mcrt.Make[struct{}](0, "done")
		mcrt.Go("l", func() {
			defer done.Close()
			for {
				ct, cd := mcrt.RecvCase(tk.C), mcrt.RecvCase(ctx.Done())
				switch mcrt.Select(false, ct, cd) {
				case 0:
					n++
					if n == 2 {
						cancel()
					}
				case 1:
					return
				}
			}
		})
		done.Recv()
		log(fmt.Sprint(n >= 2))
	})
	if keys(got) != "true" {
		t.Fatalf("got %s", keys(got))
	}
}

func TestLostUpdate(t *testing.T) {
	got, _ := outcomes(t, 2, func(log func(string)) {
		x := 0
		wg := &mcrt.WaitGroup{}
		wg.Add(2)
		for i := 0; i < 2; i++ {
			mcrt.Go("w", func() { mcrt.Yield(); v := x; mcrt.Yield(); x = v + 1; wg.Done() })
		}
		wg.Wait()
		log(fmt.Sprint(x))
	})
	if keys(got) != "1 | 2" {
		t.Fatalf("got %s", keys(got))
	}
}

func TestExploreAllSmall(t *testing.T) {
	// three threads, two operations each on two channels: compare the outcome set of the unbounded pruned search
	// with the deviation-bounded search at a bound that is complete for this program
	body := func(log func(string)) {
		a, b := mcrt.Make[int](1, "a"), mcrt.Make[int](0, "b")
		var wg mcrt.WaitGroup
		wg.Add(2)
		mcrt.Go("p", func() { a.Send(1); b.Send(10); wg.Done() })
		mcrt.Go("q", func() { b.Send(20); a.Send(2); wg.Done() })
		x := b.Recv()
		y := a.Recv()
		z := b.Recv()
		w := a.Recv()
		wg.Wait()
		log(fmt.Sprint(x, y, z, w))
	}
	want, _ := outcomes(t, 6, body)
	exec := func(ch mcrt.Chooser, cfg mcrt.Config) *Outcome {
		var obs []string
		res := mcrt.Run(cfg, ch, func() { body(func(s string) { obs = append(obs, s) }) })
		o := strings.Join(obs, ",")
		if res.Verdict != "" && res.Verdict != mcrt.VPruned {
			o += "!" + res.Verdict
		}
		return &Outcome{Res: res, Obs: o}
	}
	st := ExploreAll(exec, Options{}, 0)
	if st.Nondet != "" {
		t.Fatal(st.Nondet)
	}
	if keys(st.Distinct) != keys(want) {
		t.Fatalf("unbounded pruned search saw %s, bounded search %s", keys(st.Distinct), keys(want))
	}
	t.Logf("executions=%d pruned=%d states=%d outcomes=%s", st.Execs, st.Pruned, st.StatesSeen, keys(st.Distinct))
}

// sync.WaitGroup's contract: a positive Add at counter zero must happen after all previous Wait calls have returned.
func TestWaitGroupReuseBeforeWaitReturned(t *testing.T) {
	got, _ := outcomes(t, 2, func(log func(string)) {
		var wg mcrt.WaitGroup
		wg.Add(1)
		mcrt.Go("worker", func() { wg.Done() })
		mcrt.Go("late-adder", func() { wg.Add(1); wg.Done() }) // nothing orders this Add after the Wait below
		wg.Wait()
		log("waited")
	})
	panics := false
	for k := range got {
		if strings.Contains(k, "PANIC") {
			panics = true
		}
	}
	if !panics || got["waited"] == 0 {
		t.Fatalf("want both a clean run and a run reporting the reuse, got %s", keys(got))
	}
	// correct reuse: the second round starts after Wait returned
	got, _ = outcomes(t, 2, func(log func(string)) {
		var wg mcrt.WaitGroup
		for round := 0; round < 2; round++ {
			wg.Add(1)
			mcrt.Go("worker", func() { wg.Done() })
			wg.Wait()
		}
		log("waited")
	})
	if keys(got) != "waited" {
		t.Fatalf("correct reuse: got %s", keys(got))
	}
}
