// Package explore is a stateless depth-first explorer with iterative
// deviation bounding over mcrt executions.
package explore

import (
	"fmt"
	"os"
	"time"

	"mcrt"
)

// Outcome is what one execution produced, as judged by the scenario's oracle.
type Outcome struct {
	Res       *mcrt.Result
	Obs       string   // canonical observation record (distinct-outcome key)
	Violation string   // "" = property held on this execution
	Key       string   // classification key of the violation (partition|verdict|blocked-at)
	Detail    string   // human-readable explanation
	Events    []string // partition events seen (e.g. "push-detached")
}

// Exec runs the scenario once under the given chooser.
type Exec func(ch mcrt.Chooser, cfg mcrt.Config) *Outcome

type Options struct {
	Bound      int
	Strategy   int
	MaxExecs   int       // 0 = unlimited
	Deadline   time.Time // zero = none
	Cfg        mcrt.Config
	StopOnViol bool
	Shard, Of  int    // subtree sharding on the first choice point's children (Of=0: off)
	CurFile    string // if set, the choice prefix of the execution about to run is written here (race variant: the process may die inside it)
}

type Found struct {
	Choices  []int
	Strategy int
	Outcome  *Outcome
}

type Stats struct {
	Execs        int
	Steps        int64 // visible operations executed (transitions)
	Points       int64 // scheduling points visited (states)
	ChoicePoints int64
	MaxChoices   int
	ByDev        []int
	Distinct     map[string]int
	Capped       bool
	CapReason    string
	Found        []Found
	Nondet       string
}

type replayChooser struct {
	prefix []int
	expN   []int
	pos    int
	bad    string
}

func (r *replayChooser) Choose(n int) int {
	i := r.pos
	r.pos++
	if i < len(r.prefix) {
		if r.expN != nil && i < len(r.expN) && r.expN[i] != n && r.bad == "" {
			r.bad = fmt.Sprintf("choice point %d offered %d alternatives on replay, %d before", i, n, r.expN[i])
		}
		if r.prefix[i] >= n {
			if r.bad == "" {
				r.bad = fmt.Sprintf("choice point %d: recorded choice %d out of range %d", i, r.prefix[i], n)
			}
			return 0
		}
		return r.prefix[i]
	}
	return 0
}

// RunOne executes one schedule given by its explicit choice prefix (default afterwards).
func RunOne(exec Exec, cfg mcrt.Config, prefix []int) (*Outcome, string) {
	rc := &replayChooser{prefix: prefix}
	out := exec(rc, cfg)
	return out, rc.bad
}

type explorer struct {
	exec  Exec
	opt   Options
	st    *Stats
	stop  bool
	execN int
}

func Explore(exec Exec, opt Options) *Stats {
	st := &Stats{Distinct: map[string]int{}, ByDev: make([]int, opt.Bound+1)}
	e := &explorer{exec: exec, opt: opt, st: st}
	e.opt.Cfg.Strategy = opt.Strategy
	e.explore(nil, nil, 0)
	return st
}

func (e *explorer) explore(prefix, expN []int, devs int) {
	if e.stop {
		return
	}
	if e.opt.MaxExecs > 0 && e.st.Execs >= e.opt.MaxExecs {
		e.st.Capped, e.st.CapReason, e.stop = true, "max executions", true
		return
	}
	if !e.opt.Deadline.IsZero() && e.st.Execs%64 == 0 && time.Now().After(e.opt.Deadline) {
		e.st.Capped, e.st.CapReason, e.stop = true, "deadline", true
		return
	}
	if e.opt.CurFile != "" {
		os.WriteFile(e.opt.CurFile, []byte(fmt.Sprint(prefix)), 0o644)
	}
	rc := &replayChooser{prefix: prefix, expN: expN}
	out := e.exec(rc, e.opt.Cfg)
	res := out.Res
	if rc.bad != "" || res.Verdict == mcrt.VHarness {
		e.st.Nondet = fmt.Sprintf("prefix %v: %s %s", prefix, rc.bad, res.Msg)
		e.stop = true
		return
	}
	e.st.Execs++
	e.st.Steps += int64(res.Steps)
	e.st.Points += int64(res.Points)
	e.st.ChoicePoints += int64(len(res.Choices))
	if len(res.Choices) > e.st.MaxChoices {
		e.st.MaxChoices = len(res.Choices)
	}
	e.st.ByDev[devs]++
	e.st.Distinct[out.Obs]++
	if out.Violation != "" {
		ch := make([]int, len(res.Choices))
		for i, c := range res.Choices {
			ch[i] = c.Idx
		}
		// trim trailing defaults
		for len(ch) > 0 && ch[len(ch)-1] == 0 {
			ch = ch[:len(ch)-1]
		}
		e.st.Found = append(e.st.Found, Found{Choices: ch, Strategy: e.opt.Strategy, Outcome: out})
		if e.opt.StopOnViol {
			e.stop = true
			return
		}
	}
	if devs >= e.opt.Bound {
		return
	}
	ns := make([]int, len(res.Choices))
	for i, c := range res.Choices {
		ns[i] = c.N
	}
	for i := len(prefix); i < len(res.Choices); i++ {
		for alt := 1; alt < res.Choices[i].N; alt++ {
			if e.opt.Of > 0 && len(prefix) == 0 {
				// shard the level-1 subtrees round-robin
				e.execN++
				if e.execN%e.opt.Of != e.opt.Shard {
					continue
				}
			}
			np := make([]int, i+1)
			for j := 0; j < i; j++ {
				np[j] = res.Choices[j].Idx
			}
			np[i] = alt
			e.explore(np, ns[:i+1], devs+1)
			if e.stop {
				return
			}
		}
	}
}
