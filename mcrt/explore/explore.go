// Package explore is a stateless depth-first explorer with iterative
// deviation bounding over mcrt executions.
package explore

import (
	"fmt"
	"os"
	"time"

	"mcrt"
)

// Outcome is what one execution produced, as judged by the scenario's oracle.
type Outcome struct {
	Res       *mcrt.Result
	Obs       string   // canonical observation record (distinct-outcome key)
	Violation string   // "" = property held on this execution
	Key       string   // classification key of the violation (partition|verdict|blocked-at)
	Detail    string   // human-readable explanation
	Events    []string // partition events seen (e.g. "push-detached")
}

// Exec runs the scenario once under the given chooser.
type Exec func(ch mcrt.Chooser, cfg mcrt.Config) *Outcome

type Options struct {
	Bound      int
	Strategy   int
	MaxExecs   int       // 0 = unlimited
	Deadline   time.Time // zero = none
	Cfg        mcrt.Config
	StopOnViol bool
	Shard, Of  int    // subtree sharding on the first choice point's children (Of=0: off)
	CurFile    string // if set, the choice prefix of the execution about to run is written here (race variant: the process may die inside it)
}

type Found struct {
	Choices  []int
	Strategy int
	Outcome  *Outcome
}

type Stats struct {
	Execs        int
	Steps        int64 // visible operations executed (transitions)
	Points       int64 // scheduling points visited (states)
	ChoicePoints int64
	MaxChoices   int
	ByDev        []int
	Distinct     map[string]int
	Capped       bool
	CapReason    string
	Found        []Found
	Nondet       string
}

type replayChooser struct {
	prefix []int
	expN   []int
	pos    int
	bad    string
}

func (r *replayChooser) Choose(n int) int {
	i := r.pos
	r.pos++
	if i < len(r.prefix) {
		if r.expN != nil && i < len(r.expN) && r.expN[i] != n && r.bad == "" {
			r.bad = fmt.Sprintf("choice point %d offered %d alternatives on replay, %d before", i, n, r.expN[i])
		}
		if r.prefix[i] >= n {
			if r.bad == "" {
				r.bad = fmt.Sprintf("choice point %d: recorded choice %d out of range %d", i, r.prefix[i], n)
			}
			return 0
		}
		return r.prefix[i]
	}
	return 0
}

// RunOne executes one schedule given by its explicit choice prefix (default afterwards).
func RunOne(exec Exec, cfg mcrt.Config, prefix []int) (*Outcome, string) {
	rc := &replayChooser{prefix: prefix}
	out := exec(rc, cfg)
	return out, rc.bad
}

type explorer struct {
	exec  Exec
	opt   Options
	st    *Stats
	stop  bool
	execN int
}

func Explore(exec Exec, opt Options) *Stats {
	st := &Stats{Distinct: map[string]int{}, ByDev: make([]int, opt.Bound+1)}
	e := &explorer{exec: exec, opt: opt, st: st}
	e.opt.Cfg.Strategy = opt.Strategy
	e.explore(nil, nil, 0)
	return st
}

func (e *explorer) explore(prefix, expN []int, devs int) {
	if e.stop {
		return
	}
	if e.opt.MaxExecs > 0 && e.st.Execs >= e.opt.MaxExecs {
		e.st.Capped, e.st.CapReason, e.stop = true, "max executions", true
		return
	}
	if !e.opt.Deadline.IsZero() && e.st.Execs%64 == 0 && time.Now().After(e.opt.Deadline) {
		e.st.Capped, e.st.CapReason, e.stop = true, "deadline", true
		return
	}
	if e.opt.CurFile != "" {
		os.WriteFile(e.opt.CurFile, []byte(fmt.Sprint(prefix)), 0o644)
	}
	rc := &replayChooser{prefix: prefix, expN: expN}
	out := e.exec(rc, e.opt.Cfg)
	res := out.Res
	if rc.bad != "" || res.Verdict == mcrt.VHarness {
		e.st.Nondet = fmt.Sprintf("prefix %v: %s %s", prefix, rc.bad, res.Msg)
		e.stop = true
		return
	}
	e.st.Execs++
	e.st.Steps += int64(res.Steps)
	e.st.Points += int64(res.Points)
	e.st.ChoicePoints += int64(len(res.Choices))
	if len(res.Choices) > e.st.MaxChoices {
		e.st.MaxChoices = len(res.Choices)
	}
	e.st.ByDev[devs]++
	e.st.Distinct[out.Obs]++
	if out.Violation != "" {
		ch := make([]int, len(res.Choices))
		for i, c := range res.Choices {
			ch[i] = c.Idx
		}
		// trim trailing defaults
		for len(ch) > 0 && ch[len(ch)-1] == 0 {
			ch = ch[:len(ch)-1]
		}
		e.st.Found = append(e.st.Found, Found{Choices: ch, Strategy: e.opt.Strategy, Outcome: out})
		if e.opt.StopOnViol {
			e.stop = true
			return
		}
	}
	if devs >= e.opt.Bound {
		return
	}
	ns := make([]int, len(res.Choices))
	for i, c := range res.Choices {
		ns[i] = c.N
	}
	for i := len(prefix); i < len(res.Choices); i++ {
		for alt := 1; alt < res.Choices[i].N; alt++ {
			if e.opt.Of > 0 && len(prefix) == 0 {
				// shard the level-1 subtrees round-robin
				e.execN++
				if e.execN%e.opt.Of != e.opt.Shard {
					continue
				}
			}
			np := make([]int, i+1)
			for j := 0; j < i; j++ {
				np[j] = res.Choices[j].Idx
			}
			np[i] = alt
			e.explore(np, ns[:i+1], devs+1)
			if e.stop {
				return
			}
		}
	}
}

// ExploreAll is the unbounded search: every alternative at every choice point, pruned by happens-before state
// keys (mcrt.Config.SeenState): an execution that reaches a state seen before ends there, because everything
// reachable from that state is explored from its first visit. MaxTicks bounds the early environment ticks (time
// is otherwise an unbounded source of new states). The result is exhaustive over all interleavings of the
// program's visible operations (up to 64-bit hash collisions of the state keys) unless a cap is hit.
type AllStats struct {
	Stats
	StatesSeen int
	Pruned     int
}

func ExploreAll(exec Exec, opt Options, maxTicks int) *AllStats {
	st := &AllStats{Stats: Stats{Distinct: map[string]int{}, ByDev: make([]int, 1)}}
	seen := map[uint64]struct{}{}
	var rec func(prefix, expN []int)
	stop := false
	rec = func(prefix, expN []int) {
		if stop {
			return
		}
		if opt.MaxExecs > 0 && st.Execs >= opt.MaxExecs {
			st.Capped, st.CapReason, stop = true, "max executions", true
			return
		}
		if !opt.Deadline.IsZero() && st.Execs%64 == 0 && time.Now().After(opt.Deadline) {
			st.Capped, st.CapReason, stop = true, "deadline", true
			return
		}
		rc := &replayChooser{prefix: prefix, expN: expN}
		cfg := opt.Cfg
		cfg.Strategy = opt.Strategy
		cfg.MaxTicks = maxTicks
		cfg.Replaying = func() bool { return rc.pos < len(rc.prefix) }
		cfg.SeenState = func(k uint64) bool {
			if _, ok := seen[k]; ok {
				return true
			}
			seen[k] = struct{}{}
			return false
		}
		out := exec(rc, cfg)
		res := out.Res
		if rc.bad != "" || res.Verdict == mcrt.VHarness {
			st.Nondet = fmt.Sprintf("prefix %v: %s %s", prefix, rc.bad, res.Msg)
			stop = true
			return
		}
		st.Execs++
		st.Steps += int64(res.Steps)
		st.Points += int64(res.Points)
		st.ChoicePoints += int64(len(res.Choices))
		if len(res.Choices) > st.MaxChoices {
			st.MaxChoices = len(res.Choices)
		}
		if res.Verdict == mcrt.VPruned {
			st.Pruned++
		} else {
			st.Distinct[out.Obs]++
			if out.Violation != "" {
				ch := make([]int, len(res.Choices))
				for i, c := range res.Choices {
					ch[i] = c.Idx
				}
				for len(ch) > 0 && ch[len(ch)-1] == 0 {
					ch = ch[:len(ch)-1]
				}
				st.Found = append(st.Found, Found{Choices: ch, Strategy: opt.Strategy, Outcome: out})
				if opt.StopOnViol {
					stop = true
					return
				}
			}
		}
		ns := make([]int, len(res.Choices))
		for i, c := range res.Choices {
			ns[i] = c.N
		}
		for i := len(res.Choices) - 1; i >= len(prefix); i-- {
			for alt := 1; alt < res.Choices[i].N; alt++ {
				np := make([]int, i+1)
				for j := 0; j < i; j++ {
					np[j] = res.Choices[j].Idx
				}
				np[i] = alt
				rec(np, ns[:i+1])
				if stop {
					return
				}
			}
		}
	}
	rec(nil, nil)
	st.StatesSeen = len(seen)
	st.ByDev[0] = st.Execs
	return st
}
