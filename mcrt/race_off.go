//go:build !race

package mcrt

const raceOn = false

type tok struct{}

func newTok() *tok     { return nil }
func rdisable()        {}
func renable()         {}
func racq(p *tok)      {}
func rrel(p *tok)      {}
func rrelmerge(p *tok) {}
