package mcrt

// Chan is the rewrite target of every Go channel type.
type Chan[T any] struct {
	k *core
}

// Make is the rewrite of make(chan T, n); site is the source position.
func Make[T any](n int, site string) *Chan[T] {
	return &Chan[T]{k: newCore(n, site)}
}

// newCore is not generic on purpose: generic code is compiled (and, in the race variant, instrumented)
// in the importing package, and the channel counter is scheduler state.
//
//go:noinline
func newCore(n int, site string) *core {
	k := &core{cap: n, name: site}
	if s := S; s != nil {
		k.id = s.nchan
		s.nchan++
	}
	return k
}

func (c *Chan[T]) core() *core {
	if c == nil {
		return nil
	}
	return c.k
}

func unbox[T any](v interface{}) T {
	if v == nil {
		var z T
		return z
	}
	return v.(T)
}

func (c *Chan[T]) Send(v T) {
	s, t := cur()
	if t.exiting {
		return
	}
	t.single[0] = scase{send: true, c: c.core(), val: v}
	t.op = op{kind: opChan, cases: t.single[:]}
	s.visible(t)
}

func (c *Chan[T]) Recv() T {
	v, _ := c.Recv2()
	return v
}

func (c *Chan[T]) Recv2() (T, bool) {
	s, t := cur()
	if t.exiting {
		var z T
		return z, false
	}
	t.single[0] = scase{c: c.core()}
	t.op = op{kind: opChan, cases: t.single[:]}
	s.visible(t)
	return unbox[T](t.op.val), t.op.ok
}

func (c *Chan[T]) Close() {
	s, t := cur()
	if t.exiting {
		return
	}
	t.op = op{kind: opClose, c: c.core()}
	s.visible(t)
}

func (c *Chan[T]) Len() int {
	if c == nil {
		return 0
	}
	return len(c.k.buf)
}

func (c *Chan[T]) Cap() int {
	if c == nil {
		return 0
	}
	return c.k.cap
}

// Name returns the creation site, ID the per-execution creation index.
func (c *Chan[T]) Name() string { return c.k.name }
func (c *Chan[T]) ID() int      { return c.k.id }

// Case is one communication clause of a rewritten select statement.
type Case interface {
	sc() scase
	set(v interface{}, ok bool)
}

type RCase[T any] struct {
	c   *Chan[T]
	val T
	ok  bool
}

func RecvCase[T any](c *Chan[T]) *RCase[T] { return &RCase[T]{c: c} }
func (r *RCase[T]) sc() scase              { return scase{c: r.c.core()} }
func (r *RCase[T]) set(v interface{}, ok bool) {
	r.val, r.ok = unbox[T](v), ok
}
func (r *RCase[T]) Val() T   { return r.val }
func (r *RCase[T]) Ok() bool { return r.ok }

type SCase[T any] struct {
	c *Chan[T]
	v T
}

func SendCase[T any](c *Chan[T], v T) *SCase[T] { return &SCase[T]{c: c, v: v} }
func (x *SCase[T]) sc() scase                   { return scase{send: true, c: x.c.core(), val: x.v} }
func (x *SCase[T]) set(v interface{}, ok bool)  {}

// Select is the rewrite of a select statement. It returns the index of the
// clause that proceeded, or -1 for default.
func Select(hasDefault bool, cases ...Case) int {
	s, t := cur()
	if t.exiting {
		return -2
	}
	cs := make([]scase, len(cases))
	for i, c := range cases {
		cs[i] = c.sc()
	}
	t.op = op{kind: opSelect, cases: cs, hasDefault: hasDefault}
	s.visible(t)
	i := t.op.chosen
	if i >= 0 {
		cases[i].set(t.op.val, t.op.ok)
	}
	return i
}

// SelectFellThrough is the panic value of the generated default clause of a
// rewritten select (reachable only while a thread is being torn down).
const SelectFellThrough = "mcrt: select fell through"

// Method forms used by generated code (the value converts to T implicitly, as in a send statement).
func (c *Chan[T]) SendCase(v T) *SCase[T] { return &SCase[T]{c: c, v: v} }
func (c *Chan[T]) RecvCase() *RCase[T]    { return &RCase[T]{c: c} }
