package mcrt

// WaitGroup models sync.WaitGroup.
type WaitGroup struct {
	hist    uint64
	n       int
	waiters []*Thread
	toks    []*tok
	// returning: threads released from Wait by the counter reaching zero that have not run since. sync.WaitGroup's
	// contract: a positive Add at counter zero must happen after all previous Wait calls have returned; the real
	// implementation may panic ("WaitGroup is reused before previous Wait has returned" / "Add called concurrently
	// with Wait") when it does not, so the model reports that history as a panic of the adder
	returning []*Thread
}

func (wg *WaitGroup) Add(n int) {
	s, t := cur()
	if t.exiting {
		return
	}
	t.op = op{kind: opWgAdd, wg: wg, n: n}
	s.visible(t)
}

func (wg *WaitGroup) Done() { wg.Add(-1) }

func (wg *WaitGroup) Wait() {
	s, t := cur()
	if t.exiting {
		return
	}
	t.op = op{kind: opWgWait, wg: wg}
	s.visible(t)
	for i, w := range wg.returning {
		if w == t {
			wg.returning = append(wg.returning[:i], wg.returning[i+1:]...)
			break
		}
	}
}

// Mutex models sync.Mutex and sync.RWMutex.
type Mutex struct {
	hist    uint64
	locked  bool
	readers int
	waiters []*Thread
	toks    []*tok
	rtoks   []*tok
}

func (m *Mutex) lockOp(k opKind) {
	s, t := cur()
	if t.exiting {
		return
	}
	t.op = op{kind: k, mu: m}
	s.visible(t)
}

func (m *Mutex) Lock()    { m.lockOp(opLock) }
func (m *Mutex) Unlock()  { m.lockOp(opUnlock) }
func (m *Mutex) RLock()   { m.lockOp(opRLock) }
func (m *Mutex) RUnlock() { m.lockOp(opRUnlock) }
func (m *Mutex) TryLock() bool {
	_, t := cur()
	if t.exiting {
		return false
	}
	Yield()
	if m.locked || m.readers > 0 {
		return false
	}
	m.locked = true
	return true
}

// Once models sync.Once.
type Once struct {
	m    Mutex
	done bool
}

func (o *Once) Do(f func()) {
	o.m.Lock()
	defer o.m.Unlock()
	if !o.done {
		defer func() { o.done = true }()
		f()
	}
}
