package mcrt

// WaitGroup models sync.WaitGroup.
type WaitGroup struct {
	hist    uint64
	n       int
	waiters []*Thread
	toks    []*tok
}

func (wg *WaitGroup) Add(n int) {
	s, t := cur()
	if t.exiting {
		return
	}
	t.op = op{kind: opWgAdd, wg: wg, n: n}
	s.visible(t)
}

func (wg *WaitGroup) Done() { wg.Add(-1) }

func (wg *WaitGroup) Wait() {
	s, t := cur()
	if t.exiting {
		return
	}
	t.op = op{kind: opWgWait, wg: wg}
	s.visible(t)
}

// Mutex models sync.Mutex and sync.RWMutex.
type Mutex struct {
	hist    uint64
	locked  bool
	readers int
	waiters []*Thread
	toks    []*tok
	rtoks   []*tok
}

func (m *Mutex) lockOp(k opKind) {
	s, t := cur()
	if t.exiting {
		return
	}
	t.op = op{kind: k, mu: m}
	s.visible(t)
}

func (m *Mutex) Lock()    { m.lockOp(opLock) }
func (m *Mutex) Unlock()  { m.lockOp(opUnlock) }
func (m *Mutex) RLock()   { m.lockOp(opRLock) }
func (m *Mutex) RUnlock() { m.lockOp(opRUnlock) }
func (m *Mutex) TryLock() bool {
	_, t := cur()
	if t.exiting {
		return false
	}
	Yield()
	if m.locked || m.readers > 0 {
		return false
	}
	m.locked = true
	return true
}

// Once models sync.Once.
type Once struct {
	m    Mutex
	done bool
}

func (o *Once) Do(f func()) {
	o.m.Lock()
	defer o.m.Unlock()
	if !o.done {
		defer func() { o.done = true }()
		f()
	}
}
