package mcrt

import "unsafe"

// WaitGroup models sync.WaitGroup.
type WaitGroup struct {
	hist    uint64
	n       int
	waiters []*Thread
	toks    []*tok
	// returning: threads released from Wait by the counter reaching zero that have not run since. sync.WaitGroup's
	// contract: a positive Add at counter zero must happen after all previous Wait calls have returned; the real
	// implementation may panic ("WaitGroup is reused before previous Wait has returned" / "Add called concurrently
	// with Wait") when it does not, so the model reports that history as a panic of the adder
	returning []*Thread
}

func (wg *WaitGroup) Add(n int) {
	s, t := cur()
	if t.exiting {
		return
	}
	t.op = op{kind: opWgAdd, wg: wg, n: n}
	s.visible(t)
}

func (wg *WaitGroup) Done() { wg.Add(-1) }

func (wg *WaitGroup) Wait() {
	s, t := cur()
	if t.exiting {
		return
	}
	t.op = op{kind: opWgWait, wg: wg}
	s.visible(t)
	for i, w := range wg.returning {
		if w == t {
			wg.returning = append(wg.returning[:i], wg.returning[i+1:]...)
			break
		}
	}
}

// Mutex models sync.Mutex and sync.RWMutex.
type Mutex struct {
	hist    uint64
	locked  bool
	readers int
	waiters []*Thread
	toks    []*tok
	rtoks   []*tok
}

func (m *Mutex) lockOp(k opKind) {
	s, t := cur()
	if t.exiting {
		return
	}
	t.op = op{kind: k, mu: m}
	s.visible(t)
}

func (m *Mutex) Lock()    { m.lockOp(opLock) }
func (m *Mutex) Unlock()  { m.lockOp(opUnlock) }
func (m *Mutex) RLock()   { m.lockOp(opRLock) }
func (m *Mutex) RUnlock() { m.lockOp(opRUnlock) }
func (m *Mutex) TryLock() bool {
	_, t := cur()
	if t.exiting {
		return false
	}
	Yield()
	if m.locked || m.readers > 0 {
		return false
	}
	m.locked = true
	return true
}

// Once models sync.Once.
type Once struct {
	m    Mutex
	done bool
}

func (o *Once) Do(f func()) {
	o.m.Lock()
	defer o.m.Unlock()
	if !o.done {
		defer func() { o.done = true }()
		f()
	}
}

// Atomic operations (sync/atomic in rewritten code): each variable gets a Mutex of its own for the execution in
// progress and every operation on it is Lock; plain access; Unlock. That makes the operation a scheduling point, puts
// it into the state-key histories, and gives the race variant the happens-before edges of Go's sequentially consistent
// atomics (an operation is ordered after every earlier operation on the same variable).
type atomicCell struct {
	p  unsafe.Pointer
	mu *Mutex
}

func AtomicEnter(p unsafe.Pointer) *Mutex {
	s, t := cur()
	if t.exiting {
		return nil
	}
	var m *Mutex
	for i := range s.atomics {
		if s.atomics[i].p == p {
			m = s.atomics[i].mu
			break
		}
	}
	if m == nil {
		m = new(Mutex)
		s.atomics = append(s.atomics, atomicCell{p, m})
	}
	m.Lock()
	return m
}

func AtomicLeave(m *Mutex) {
	if m != nil {
		m.Unlock()
	}
}

// Locker mirrors sync.Locker.
type Locker interface {
	Lock()
	Unlock()
}

// Cond models sync.Cond: Wait joins the notify list before it releases L (as sync.Cond does), Signal wakes the
// longest waiter, Broadcast all of them; every wake-up is a buffered hand-off, so it carries the happens-before edge.
type Cond struct {
	L       Locker
	waiters []*Chan[struct{}]
}

func NewCond(l Locker) *Cond { return &Cond{L: l} }

func (c *Cond) Wait() {
	_, t := cur()
	if t.exiting {
		return
	}
	ch := Make[struct{}](1, "cond.wait")
	c.waiters = append(c.waiters, ch)
	c.L.Unlock()
	ch.Recv()
	c.L.Lock()
}

func (c *Cond) Signal() {
	_, t := cur()
	if t.exiting {
		return
	}
	Yield()
	if len(c.waiters) > 0 {
		w := c.waiters[0]
		c.waiters = c.waiters[1:]
		w.Send(struct{}{})
	}
}

func (c *Cond) Broadcast() {
	_, t := cur()
	if t.exiting {
		return
	}
	Yield()
	ws := c.waiters
	c.waiters = nil
	for _, w := range ws {
		w.Send(struct{}{})
	}
}

// Pool models sync.Pool as one shared LIFO free list (the most adversarial of the behaviours sync.Pool allows: an
// item put by one goroutine is handed to the next Get of any goroutine); Put happens before the Get that returns the item.
type Pool struct {
	New   func() interface{}
	mu    Mutex
	items []interface{}
}

func (p *Pool) Get() interface{} {
	p.mu.Lock()
	var v interface{}
	if n := len(p.items); n > 0 {
		v = p.items[n-1]
		p.items[n-1] = nil
		p.items = p.items[:n-1]
	}
	p.mu.Unlock()
	if v == nil && p.New != nil {
		v = p.New()
	}
	return v
}

func (p *Pool) Put(v interface{}) {
	if v == nil {
		return
	}
	p.mu.Lock()
	p.items = append(p.items, v)
	p.mu.Unlock()
}

// Map models sync.Map with insertion-ordered keys (Range is deterministic).
type Map struct {
	mu   Mutex
	keys []interface{}
	vals []interface{}
}

func (m *Map) find(k interface{}) int {
	for i := range m.keys {
		if m.keys[i] == k {
			return i
		}
	}
	return -1
}

func (m *Map) Load(k interface{}) (v interface{}, ok bool) {
	m.mu.Lock()
	if i := m.find(k); i >= 0 {
		v, ok = m.vals[i], true
	}
	m.mu.Unlock()
	return
}

func (m *Map) Store(k, v interface{}) { m.Swap(k, v) }

func (m *Map) Swap(k, v interface{}) (prev interface{}, loaded bool) {
	m.mu.Lock()
	if i := m.find(k); i >= 0 {
		prev, loaded = m.vals[i], true
		m.vals[i] = v
	} else {
		m.keys = append(m.keys, k)
		m.vals = append(m.vals, v)
	}
	m.mu.Unlock()
	return
}

func (m *Map) LoadOrStore(k, v interface{}) (actual interface{}, loaded bool) {
	m.mu.Lock()
	if i := m.find(k); i >= 0 {
		actual, loaded = m.vals[i], true
	} else {
		m.keys = append(m.keys, k)
		m.vals = append(m.vals, v)
		actual = v
	}
	m.mu.Unlock()
	return
}

func (m *Map) LoadAndDelete(k interface{}) (v interface{}, loaded bool) {
	m.mu.Lock()
	if i := m.find(k); i >= 0 {
		v, loaded = m.vals[i], true
		nk := make([]interface{}, 0, len(m.keys))
		nv := make([]interface{}, 0, len(m.vals))
		for j := range m.keys {
			if j != i {
				nk = append(nk, m.keys[j])
				nv = append(nv, m.vals[j])
			}
		}
		m.keys, m.vals = nk, nv
	}
	m.mu.Unlock()
	return
}

func (m *Map) Delete(k interface{}) { m.LoadAndDelete(k) }

func (m *Map) CompareAndSwap(k, o, n interface{}) (ok bool) {
	m.mu.Lock()
	if i := m.find(k); i >= 0 && m.vals[i] == o {
		m.vals[i] = n
		ok = true
	}
	m.mu.Unlock()
	return
}

func (m *Map) Range(f func(k, v interface{}) bool) {
	m.mu.Lock()
	ks := make([]interface{}, len(m.keys))
	vs := make([]interface{}, len(m.vals))
	for i := range m.keys {
		ks[i], vs[i] = m.keys[i], m.vals[i]
	}
	m.mu.Unlock()
	for i := range ks {
		if !f(ks[i], vs[i]) {
			return
		}
	}
}
