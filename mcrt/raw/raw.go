// Package raw gives harness code access to real goroutines and channels that
// mcgen leaves alone (this package is not rewritten).
package raw

import (
	"bytes"
	"io"
	"sync"
	"time"
)

// Go starts a real goroutine outside the controlled scheduler. Only for
// helpers that never touch modelled objects (e.g. draining a pty).
func Go(f func()) { go f() }

// Signal is a real one-shot event.
type Signal struct{ ch chan struct{} }

func NewSignal() *Signal { return &Signal{ch: make(chan struct{})} }
func (s *Signal) Set()   { close(s.ch) }
func (s *Signal) Wait()  { <-s.ch }

// Drain reads r to EOF/error in a real goroutine; Wait returns everything read.
type Drained struct {
	mu   sync.Mutex
	buf  []byte
	done chan struct{}
}

func Drain(r io.Reader) *Drained {
	d := &Drained{done: make(chan struct{})}
	go func() {
		defer close(d.done)
		b := make([]byte, 65536)
		for {
			n, err := r.Read(b)
			if n > 0 {
				d.mu.Lock()
				d.buf = append(d.buf, b[:n]...)
				d.mu.Unlock()
			}
			if err != nil {
				return
			}
		}
	}()
	return d
}

// WaitFor blocks until the data read so far contains marker (or the reader ended).
func (d *Drained) WaitFor(marker string) {
	for i := 0; ; i++ {
		d.mu.Lock()
		ok := bytes.Contains(d.buf, []byte(marker))
		d.mu.Unlock()
		if ok {
			return
		}
		select {
		case <-d.done:
			return
		default:
		}
		if i > 20000 {
			return
		}
		time.Sleep(100 * time.Microsecond)
	}
}

func (d *Drained) Wait() []byte {
	<-d.done
	d.mu.Lock()
	defer d.mu.Unlock()
	return d.buf
}
