#!/usr/bin/env python3
# seedsum.py <logdir>: one line per evaluated seed: suite / demo with / demo without / caught-by / missed-by
import sys,re,glob,os
d=sys.argv[1]
for f in sorted(glob.glob(d+'/C*-*.log')):
    t=open(f).read()
    name=os.path.basename(f)[:-4]
    parts=re.split(r'^== ',t,flags=re.M)
    suite=demoW=demoWo='?'; caught=[]; missed=[]; notes=[]
    for p in parts:
        if p.startswith('suite with change'):
            suite='green' if 'FAIL' not in p and 'ok' in p else 'RED'
        elif p.startswith('demo with change'):
            demoW='fails' if 'FAIL' in p else 'PASSES(!)'
        elif p.startswith('demo without change'):
            demoWo='passes' if ('FAIL' not in p and 'ok' in p) else 'FAILS(!)'
        elif p.startswith('check '):
            c=p.split()[1]
            if 'VIOLATION' in p: caught.append(c+'['+','.join(sorted(set(re.findall(r'violation key=(\S+)',p))))[:90]+']')
            elif 'quick:' in p or 'thorough:' in p:
                missed.append(c+('(capped)' if 'exhaustive=false' in p else ''))
            else: notes.append(c+':incomplete')
        elif 'DOES NOT APPLY' in p: notes.append('patch does not apply')
    if 'PATCH DOES NOT APPLY' in t: notes.append('patch does not apply')
    print(f"{name}: suite={suite} demo={demoW}/{demoWo} caught={' '.join(caught) or '-'} missed={' '.join(missed) or '-'} {' '.join(notes)}")
