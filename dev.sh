#!/bin/bash
# dev.sh: regenerate + rebuild the development driver binary (build/mc-dev)
export GOFLAGS=-mod=mod GOPROXY=off GOSUMDB=off GOTOOLCHAIN=local
set -e
cd /verif
(cd scen && go build ./... )
./bin/mcgen -src /repo -out build/gen/mpb >/dev/null
./bin/mcgen -nofuel -src scen -out build/gen/scen -replace "github.com/vbauerster/mpb/v8=>/verif/build/gen/mpb" >/dev/null
(cd mc && go build -o /verif/build/mc-dev .)
(cd pristine && go build -o /verif/build/pristine-dev .)
(cd mc && go build -race -gcflags='mcrt/...=-race=false' -gcflags='scen=-race=false' -o /verif/build/mcrace-dev .)
