#!/usr/bin/env python3
"""seedkeep4.py: fourth round of seeded changes. Sources /tmp/seed4-Cxx-out (sub-agent deliverables), logs
/verif/seedlogs/round4last (final evaluation) and /verif/seedlogs/round2 (first evaluation, before strengthening).
Writes /verif/seeded/<P>-3 and <P>-4 (round-2 change 1 and 2) and /verif/seeded/TABLE4.md."""
import json, os, shutil, sys
sys.argv = [sys.argv[0]]
import importlib.util
spec = importlib.util.spec_from_file_location("sk", "/verif/seedkeep_parse.py")
sk = importlib.util.module_from_spec(spec); spec.loader.exec_module(sk)
parse = sk.parse

SUMMARY = {
 "C01-1": ("progress.go Wait: the user wait group (WithWaitGroup) joined before the bars and the shutdown", "WithWaitGroup + a goroutine counted in it that ends only after the container shut down (consumer of the shutdown notifier, writer polling for ErrDone)"),
 "C01-2": ("bar.go EwmaSetCurrent: clamp `s.current = s.total` removed", "EwmaSetCurrent beyond the total in an auto-refreshing container: never completed, Wait hangs"),
 "C02-1": ("decor/decorator.go WC.Init: channel allocated only when nil (same edit as C12-6)", "an initialised WC value reused for several synchronised decorators"),
 "C02-2": ("bar_filler_spinner.go Fill: guard tests stat.AvailableWidth instead of the requested width", "spinner frames wider than one column with BarWidth smaller than the frame: strings.Repeat panics in the bar goroutine"),
 "C03-1": ("heap_manager.go h_push: `sync = data.sync` (same edit as C01-1)", "queued successor swapped in during the closing renders after a context cancel, a third bar above"),
 "C03-2": ("bar.go decoratorsOnShutdown: bwg.Add(1) moved inside the goroutine (same edit as C14-1)", "a ShutdownListener whose OnShutdown changes what the decorator shows; last frame drawn before it ran"),
 "C04-1": ("heap_manager.go h_fix: priority written before the popped guard (only heap.Fix skipped)", "pop mode + SetPriority on a finished bar in the window before it is popped"),
 "C04-2": ("bar_filler_spinner.go: frame width measured once in Build from frames[0]", "spinner frames of unequal width, a later frame wider than the first"),
 "C05-1": ("progress.go flush case 1: pop test before the queued-successor test (same edit as C17-3)", "pop mode + BarQueueAfter"),
 "C05-2": ("heap_manager.go h_fix: the lazy branch returns before the popped guard", "pop mode + lazy UpdateBarPriority on a finished bar in the window before it is popped"),
 "C06-1": ("priority_queue.go Swap: `pq[j].index = i`", "four or more bars, two immediate priority changes between two frames, the second on a bar the first displaced"),
 "C06-2": ("bar_option.go BarQueueAfter: returns nil when the predecessor is no longer running", "manual refresh: successor created after the predecessor completed but before it retired"),
 "C07-1": ("bar_filler_bar.go Fill: refiller loop bound `> 0` instead of `>= w`", "two-column refiller rune and an odd number of columns left for the refill part"),
 "C07-2": ("heap_manager.go h_push: `sync = data.sync` (same edit as C01-1)", "queued successor + synchronised decorators: rendering never terminates"),
 "C08-1": ("progress.go flush: clipped rows not drained (same edit as C03-3)", "more rows than the frame height, then fewer"),
 "C08-2": ("bar_filler_bar.go Fill: the tip's width read after its frame counter was advanced", "an animated tip whose frames differ in width"),
 "C09-1": ("bar.go EwmaSetCurrent implemented as EwmaIncrInt64(current - b.Current()) (read, then add)", "EwmaSetCurrent concurrent with another update of the same bar"),
 "C09-2": ("bar.go Current(): one buffered reply channel kept in the Bar, shared by all callers", "two overlapping Current() callers: replies crossed"),
 "C10-1": ("decor/moving_average.go: the locked Value() of the thread-safe wrapper deleted (unlocked one promoted)", "one NewThreadSafeMovingAverage shared by decorators of two bars"),
 "C10-2": ("progress.go flush, pop branch: push to the heap manager before the priority and popped flag are written", "pop mode, two or more bars (data race on Bar.priority)"),
 "C11-1": ("bar.go SetTotal: guard `s.triggerComplete && s.total > 0`", "a bar completed at total 0 followed by SetTotal(n>0, false) while its goroutine still serves (auto refresh)"),
 "C11-2": ("proxyreader.go proxyWriterTo.WriteTo: SetCurrent(n) instead of IncrInt64(n)", "a second io.Copy through the drained proxy, or a bar that had progress before the copy"),
 "C12-1": ("heap_manager.go h_state: the query also sets `len = bHeap.Len()`", "auto refresh, a bar of a shared column leaving during the closing renders (cancel one frame after it finished)"),
 "C12-2": ("bar.go draw: `break` after a decorator that was cut", "narrow container: a cut decorator with a synchronised one behind it while another bar still reaches that column"),
 "C13-1": ("progress.go serve: Write closures run with `go fn(w)`", "two overlapping Writes, or a Write overlapping a render"),
 "C13-2": ("progress.go Write: `if len(b) == 0 { return 0, nil }` before the done check", "an empty Write after Wait"),
 "C14-1": ("bar_option.go Prepend/AppendDecorators: nils filtered in place (`decorators[:0]`): the bar keeps the caller's backing array", "decorators passed as `slice...` from a scratch slice reused for the next bar"),
 "C14-2": ("progress.go autoRefreshListener waits for the render delay channel first, without watching the context", "auto refresh + WithRenderDelay + cancel/Shutdown while the delay is pending"),
 "C15-1": ("progress.go serve, error branch: `renderReq = nil` dropped", "a refresh request pending when the failing cycle ends: a second cycle runs after the error"),
 "C15-2": ("container_option.go WithDebugOutput: the nil guard removed", "WithDebugOutput(nil) + a render error: Fprintln(nil) panics in the container goroutine"),
 "C16-1": ("heap_manager.go h_sync: bookkeeping first and early break on an empty heap (stale matrices kept)", "synchronised decorators, all bars gone, two more refresh cycles on the empty container: distributors leak"),
 "C16-2": ("progress.go flush, error branch: the loop draining the started renders removed", "render error while another (finished, still displayed) bar has not exchanged its width"),
 "C17-1": ("heap_manager.go h_fix: heap.Fix replaced by heap.Remove + heap.Push (index of a queued bar is 0)", "non-lazy SetPriority on a bar still queued: a running bar is evicted, the queued one inserted"),
 "C17-2": ("progress.go New, nil-builder branch: options not passed on", "Progress.New(total, nil, BarQueueAfter(...))"),
 "C18-1": ("heap_manager.go h_fix: lazy branch before the popped guard (same edit as C05-8)", "pop mode + lazy priority change in the window"),
 "C18-2": ("progress.go render: `height--` applied to non-terminal output as well", "non-terminal output, pop mode, the frame that pops a bar exactly `width` rows tall"),
 "C19-1": ("progress.go makeBarState: ewma decorators of each group assigned instead of appended", "moving-average decorators on both sides of one bar"),
 "C19-2": ("proxyreader.go newProxyReader, ewma branch: tests io.ReaderFrom instead of io.WriterTo", "an ewma bar with a reader that has WriteTo but not ReadFrom (or the reverse)"),
 "C20-1": ("bar.go EwmaSetCurrent: `d := d` removed (same edit as C10-5)", "two moving-average decorators, EwmaSetCurrent"),
 "C20-2": ("decor/elapsed.go: `!s.Completed || !s.Aborted`", "a completed bar rendered again after the clock moved on"),
}

FIRST_OVERRIDE = {}
props = {json.loads(l)["id"]: json.loads(l) for l in open("/verif/properties.jsonl")}
rows = []
for p in sorted(props):
    for n in (1, 2):
        sid2 = f"{p}-{n}"
        sid = f"{p}-{n+6}"
        src = f"/tmp/seed4-{p}-out"
        patch = f"{src}/patch.diff" if n == 1 else f"{src}/patch{n}.diff"
        demo = f"{src}/demo_test.go" if n == 1 else f"{src}/demo{n}_test.go"
        notes = f"{src}/notes.txt" if n == 1 else f"{src}/notes{n}.txt"
        final = parse(f"/verif/seedlogs/round4last/{sid2}.log")
        first = parse(f"/verif/seedlogs/round4/{sid2}.log")
        if final is None or not os.path.exists(patch):
            print("MISSING", sid2); continue
        ok = final["suite_green"] and final["demo_fails_with"] and final["demo_passes_without"]
        d = f"/verif/seeded/{sid}"
        if ok:
            os.makedirs(d, exist_ok=True)
            shutil.copy(patch, f"{d}/patch.diff")
            for s, t in ((demo, "demo_test.go"), (notes, "notes.txt")):
                if os.path.exists(s):
                    shutil.copy(s, f"{d}/{t}")
        caught = [c for c, v in final["checks"].items() if v["caught"]]
        missed = [c for c, v in final["checks"].items() if not v["caught"]]
        fc = (first or {"checks": {}})["checks"]
        if sid2 in FIRST_OVERRIDE:  # the first-evaluation log of these five was overwritten by the re-run after strengthening
            fc = {c: {"caught": v} for c, v in FIRST_OVERRIDE[sid2].items()}
        what, needs = SUMMARY.get(sid2, ("", ""))
        meta = {
            "id": sid, "round": 4, "property": p, "property_title": props[p]["title"],
            "change": what, "needs_to_manifest": needs,
            "author": "sub-agent given only the property text, the one-line descriptions of the six earlier changes of its property and the request to prefer untouched files and rarely used options and a scratch worktree of /repo (nothing from /verif)",
            "confirmed_by_me": {
                "how": "seedeval.sh: scratch worktree of /repo HEAD; git apply patch; go build; go test -vet=off -count=1 ./...; demonstration run with the change (must fail) and with the change reverted by git apply -R (must pass)",
                "suite_green_with_change": final["suite_green"], "demo_fails_with_change": final["demo_fails_with"], "demo_passes_without_change": final["demo_passes_without"]},
            "checks_run": {c: {"caught": v["caught"], "violation_keys": v["keys"][:6], "run": v["summary"]} for c, v in final["checks"].items()},
            "caught_by": caught, "not_caught_by": missed,
            "first_evaluation_before_strengthening": {"caught_by": [c for c, v in fc.items() if v["caught"]], "not_caught_by": [c for c, v in fc.items() if not v["caught"]]},
            "ran": f"SEEDROOT=/tmp/seed4 CHECKS=\"{' '.join(final['checks'])}\" /verif/seedeval.sh {p} {n}  (= MC_REPO=<scratch tree with the patch> ./mc.sh check <Cxx> --tier quick; equivalent to git -C /repo apply patch.diff; ./mc.sh check ...; git -C /repo checkout -- .)",
            "kept": ok,
        }
        if ok:
            json.dump(meta, open(f"{d}/meta.json", "w"), indent=1)
        rows.append(meta)

with open("/verif/seeded/TABLE4.md", "w") as f:
    f.write("| seed | change | needs | suite green / demo fails with / passes without | caught by (quick tier) | not caught by | first evaluation missed |\n|---|---|---|---|---|---|---|\n")
    for m in rows:
        c = m["confirmed_by_me"]
        f.write(f"| {m['id']} | {m['change'].replace('|', chr(92)+'|')} | {m['needs_to_manifest']} | {'yes' if c['suite_green_with_change'] else 'NO'} / {'yes' if c['demo_fails_with_change'] else 'NO'} / {'yes' if c['demo_passes_without_change'] else 'NO'} | {', '.join(m['caught_by']) or '—'} | {', '.join(m['not_caught_by']) or '—'} | {', '.join(m['first_evaluation_before_strengthening']['not_caught_by']) or '—'} |\n")
print(f"{len(rows)} seeds, kept {sum(1 for m in rows if m['kept'])}, caught by at least one check: {sum(1 for m in rows if m['caught_by'])}, by own check: {sum(1 for m in rows if m['property'] in m['caught_by'])}")
for m in rows:
    if not m["caught_by"] or not m["kept"]:
        print("ATTENTION", m["id"], "kept" if m["kept"] else "NOT-KEPT", m["confirmed_by_me"], m["caught_by"])
