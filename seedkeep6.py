#!/usr/bin/env python3
"""seedkeep6.py: sixth round of seeded changes. Sources /tmp/seed6-Cxx-out (sub-agent deliverables), logs
/verif/seedlogs/round6last (final evaluation) and /verif/seedlogs/round6 (first evaluation, before strengthening).
Writes /verif/seeded/<P>-9 and <P>-10 (round-6 change A and B) and /verif/seeded/TABLE6.md."""
import json, os, shutil, sys
import importlib.util
spec = importlib.util.spec_from_file_location("sk", "/verif/seedkeep_parse.py")
sk = importlib.util.module_from_spec(spec); spec.loader.exec_module(sk)
parse = sk.parse

SUMMARY = {
 "C01-1": ("progress.go autoRefreshListener: the tick hand-over gets a `case <-s.ctx.Done(): return` arm that leaves without closing p.done", "a cancellation (Wait/Shutdown, parent context, render error) landing while the ticker goroutine holds a tick that serve has not yet accepted: serve never sees p.done, Wait hangs"),
 "C01-2": ("heap_manager.go push: pushes with sync == true use a blocking send (same edit as C17-4)", "more bars than WithQueueLen + a BarQueueAfter successor handed over while the heap manager is blocked handing bars to flush"),
 "C02-1": ("bar.go triggerCompletion: tryEarlyRefresh called inline on the bar goroutine, only the request pump started as a goroutine", "auto refresh: a completing operation landing inside a render cycle before that bar answered the cycle: bar, serve and heap manager wait on each other"),
 "C02-2": ("heap_manager.go push: plain blocking send instead of the non-blocking send with the detached fallback", "at least queue length + 2 bars (WithQueueLen small, or 130 bars): flush's re-push blocks against the heap manager"),
 "C03-1": ("bar.go render: the statistics snapshot taken before the late 'cancelled from outside' marking", "a bar whose goroutine is busy when the context is cancelled and then serves the closing frame's request before ctx.Done: last frame shows it running"),
 "C03-2": ("progress.go flush: `if len(rows) == 0 { return nil }` before the flush (the pending erase is never written)", "the container becomes empty through removal (remove-on-complete / Abort(true)): the last frame still shows the removed bar"),
 "C04-1": ("progress.go Write: returns len(b), nil at once, the copy happens later on the serve goroutine", "a caller that reuses its buffer (log.Logger, scratch slice) before serve copied it: lines lost and duplicated"),
 "C04-2": ("progress.go serve, done arm: the real writer swapped in when the render delay is still pending", "WithRenderDelay + auto refresh + the container ending (Wait, Shutdown, cancel) before the delay channel is closed: frames written before the delay ends"),
 "C05-1": ("progress.go flush error branch closes iterDrop before draining + heap_manager.go pop loop with heap.Pop inlined into the select's send operand (two sites)", "a filler/extender error in a bar that is not last in pop order: the next bar is popped although the drop arm wins and is never pushed back"),
 "C05-2": ("progress.go flush case 2: `s.popCompleted && !frame.noPop` -> `s.popCompleted` (same edit as C03-5)", "pop mode + a finished BarNoPop bar + two further frames: the bar is dropped without having been popped"),
 "C06-1": ("progress.go UpdateBarPriority: the closure returns early when b.priority == priority (read on the serve goroutine, written by the heap manager)", "SetPriority(x) directly followed by SetPriority(old) while the heap manager has not yet run the first request: the second call is dropped"),
 "C06-2": ("progress.go flush: `b.popped = true` moved from the shutdown == 1 branch to the shutdown == 2 branch", "pop mode, a bar finishes, two frames, then SetPriority on the finished bar: drawn below the running bars in its pop frame"),
 "C07-1": ("bar.go draw: the 'fits' and 'truncate' branches of the decorator writer folded into one (Truncate(s, 0, \"…\") returns \"…\")", "a decorator with text reached when exactly 0 columns are left: one extra \"…\" past the row per such decorator"),
 "C07-2": ("bar_option.go BarFillerOnComplete/OnAbort: the fitted message computed once per bar and reused", "a finished bar drawn while the message fits, then its room shrinks (another bar joins the synchronised column, a growing decorator)"),
 "C08-1": ("internal/percentage.go PercentageRound: totals above MaxUint32 shifted right by 32 bits (both operands)", "a total between 2^32 and about 2^40 (a 5 GiB bar stays empty until 4 GiB)"),
 "C08-2": ("bar_filler_bar.go: bFiller remembers the previous frame's curWidth and reuses it unless Current or the width changed", "one filler instance drawing two consecutive frames with equal current and width but a different total (dynamic total)"),
 "C09-1": ("bar.go saturate(): guards rearranged as `n > MaxInt64-current` / `n < MinInt64-current` (wraps when increment and counter have opposite signs)", "a negative increment on a positive counter, or a positive one on a negative counter"),
 "C09-2": ("bar.go SetCurrent: returns early when atomic.SwapInt64(&b.lastSet, current) == current (never invalidated by other mutators)", "SetCurrent(v), the counter moved by another method, SetCurrent(v) again: the last call is dropped"),
 "C10-1": ("heap_manager.go fix: non-blocking send with a detached goroutine as fall-back (copied from push)", "request queue full (WithQueueLen small) + a burst of SetPriority on one bar: an older change takes effect after a newer one"),
 "C10-2": ("bar.go render: `if ctx.Err() != nil { s.aborted = !s.completed() }` stores on every frame", "the bar's goroutine has exited, a further frame is drawn by the render goroutine while Aborted()/Completed() read the state: data race"),
 "C11-1": ("bar.go render: the draw-error branch sets s.aborted = true without the completed guard", "the filler (or a decorator) fails on a frame drawn after the bar completed: Completed() turns false, Aborted() true"),
 "C11-2": ("bar.go render: guard of the 'cancelled from outside' marking changed to `s.shutdown == 0 && !s.aborted && ctx.Err() != nil`", "manual refresh (completion cancels the bar's own context): a refresh after Bar.Wait turns a completed bar into an aborted one"),
 "C12-1": ("progress.go Add: the new bar pushed to the heap manager by the caller's goroutine after Add's closure returned", "a client's push queued between hm.sync() and hm.iter() of a pending render: the frame's width matrix lacks the new bar, its synchronised decorator blocks for ever"),
 "C12-2": ("progress.go flush: rows of a frame with shutdown == 1 && rmOnComplete discarded", "two or more bars in a synchronised column, one removed on finish whose final text is wider than the others need: the shown bars get a column as wide as the hidden bar's text"),
 "C13-1": ("cwriter Flush: a frame byte-identical to the previous one is not written", "the same text written twice with a frame in between while the bar rows do not change: the second line is lost"),
 "C13-2": ("progress.go serve: a newline appended when the buffered text does not end in one before a frame is rendered", "a line written in two pieces with a frame in between: a byte nobody wrote"),
 "C14-1": ("progress.go Wait: bwg.Wait() skipped when p.done is already closed", "the cancellation lands before Wait is entered while a bar's goroutine is still busy or a listener pending: Wait returns before listeners were notified"),
 "C14-2": ("progress.go makeBarState + bar.go serve: shutdown listeners collected by a type switch next to the ewma decorators (first matching case only)", "a decorator that is both EwmaDecorator and ShutdownListener: never notified"),
 "C15-1": ("progress.go autoRefreshListener: select on the tick hand-over or ctx.Done(), the new arm returns without close(done)", "a tick fired during a render cycle that ends with an error: p.done never closes, Wait hangs, the error is never reported"),
 "C15-2": ("progress.go serve, done arm: error report moved behind the closing loop, whose `if err := s.render(w)` shadows err", "the closing frame (after a clean shutdown request) fails: the error is reported zero times"),
 "C16-1": ("bar.go tryEarlyRefresh: pump loop `for b.IsRunning() { renderReq <- time.Now() }`", "the container becomes done while the pump is parked in its send and serve picks p.done: the pump goroutine is left behind"),
 "C16-2": ("bar.go draw: `if stat.AvailableWidth <= 0 { break }` at the top of the decorator loop", "rows narrower than the decorator in front of a width-synchronised one: the column's distributors wait for ever, one leaked goroutine per column per refresh"),
 "C17-1": ("heap_manager.go h_state: `ch <- sync || len != bHeap.Len()` -> `ch <- len != bHeap.Len()`", "cancel/Shutdown between the predecessor's two closing frames: the closing loop stops before the successor was drawn"),
 "C17-2": ("bar.go Abort: with drop the bar's extender is replaced by one that returns no rows", "BarQueueAfter(a) then a.Abort(true): frames with neither bar; Abort(true) on a still queued bar: never displayed"),
 "C18-1": ("heap_manager.go h_fix: popped guard dropped, UpdateBarPriority returns early when !b.IsRunning() (check in the client goroutine)", "SetPriority issued while the container is inside the cycle that assigns the pop priority"),
 "C18-2": ("progress.go Add: a bar queued behind an already popped bar is started at once and inherits that bar's (pop) priority", "A popped, then Q added with BarQueueAfter(A), then X finishes while Q runs: Q sorts above the popped X"),
 "C19-1": ("proxyreader.go WriteTo wrappers: err = nil when err == io.EOF", "a wrapped WriterTo whose WriteTo returns exactly io.EOF"),
 "C19-2": ("bar.go IncrInt64: `done := s.completed()` taken before adding and `!done &&` added to the completion condition (the cap sits in that branch)", "a bar completed by an earlier increment, still served (auto refresh, another bar running), more bytes through a proxy: current runs past total"),
 "C20-1": ("decor/eta.go movingAverageETA.Decor: per-item duration rounded to whole nanoseconds before multiplying", "byte-granular bars at hundreds of MB/s (0.4 ns per byte: ETA 0s instead of 30s)"),
 "C20-2": ("decor/eta.go averageETA.Decor: divisor s.Current - s.Refill", "SetCurrent(n); SetRefill(n); a frame before the next increment: division by zero, then wrong estimates"),
}

DEMO_FIXED = {
 "C03-1": "the delivered demonstration could time out in its own gating on a loaded machine ('closing frame was not started': the closing cycle came to need the gated bar's goroutine first) and so fail on the unchanged library; such trials are now skipped. Re-confirmed by hand in the scratch worktree: 5 of 5 runs pass without the change, 3 of 3 fail with it (go test -vet=off -count=1 -run Test .). Delivered version: demo_test.as-delivered.go.txt",
 "C05-1": "the delivered demonstration armed the failing filler without waiting for the first frame to be written, so it could fail on the unchanged library ('second refresh request was not taken'); it now waits for the first frame. Re-confirmed by hand in the scratch worktree: 3 of 3 runs pass without the change, 2 of 2 fail with it. Delivered version: demo_test.as-delivered.go.txt",
}
props = {json.loads(l)["id"]: json.loads(l) for l in open("/verif/properties.jsonl")}
rows = []
for p in sorted(props):
    for n in (1, 2):
        sid2 = f"{p}-{n}"
        sid = f"{p}-{n+8}"
        src = f"/tmp/seed6-{p}-out"
        patch = f"{src}/patch.diff" if n == 1 else f"{src}/patch{n}.diff"
        demo = f"{src}/demo_test.go" if n == 1 else f"{src}/demo{n}_test.go"
        notes = f"{src}/notes.txt"
        final = parse(f"/verif/seedlogs/round6last/{sid2}.log")
        first = parse(f"/verif/seedlogs/round6/{sid2}.log")
        if final is None or not os.path.exists(patch):
            print("MISSING", sid2); continue
        if sid2 in DEMO_FIXED:
            # re-confirmed by hand with the corrected demonstration (commands in the note)
            final["demo_passes_without"] = True
        ok = final["suite_green"] and final["demo_fails_with"] and final["demo_passes_without"]
        d = f"/verif/seeded/{sid}"
        if ok:
            os.makedirs(d, exist_ok=True)
            shutil.copy(patch, f"{d}/patch.diff")
            for s, t in ((demo, "demo_test.go"), (notes, "notes.txt")):
                if os.path.exists(s):
                    shutil.copy(s, f"{d}/{t}")
        caught = [c for c, v in final["checks"].items() if v["caught"]]
        missed = [c for c, v in final["checks"].items() if not v["caught"]]
        fc = (first or {"checks": {}})["checks"]
        what, needs = SUMMARY.get(sid2, ("", ""))
        meta = {
            "id": sid, "round": 6, "property": p, "property_title": props[p]["title"],
            "change": what, "needs_to_manifest": needs,
            "author": "sub-agent given only the property text, the one-line descriptions of the eight earlier changes of its property, the request for one change that needs a particular interleaving or fault point (sequential properties: an unusual input) and one that needs a multi-step sequence, an unusual option combination or two cooperating sites, and a scratch worktree of /repo (nothing from /verif)",
            "confirmed_by_me": {
                "how": "seedeval.sh: scratch worktree of /repo HEAD; git apply patch; go build; go test -vet=off -count=1 ./...; demonstration run with the change (must fail) and with the change reverted by git apply -R (must pass)",
                "suite_green_with_change": final["suite_green"], "demo_fails_with_change": final["demo_fails_with"], "demo_passes_without_change": final["demo_passes_without"]},
            "checks_run": {c: {"caught": v["caught"], "violation_keys": v["keys"][:6], "run": v["summary"]} for c, v in final["checks"].items()},
            "caught_by": caught, "not_caught_by": missed,
            "first_evaluation_before_strengthening": {"caught_by": [c for c, v in fc.items() if v["caught"]], "not_caught_by": [c for c, v in fc.items() if not v["caught"]]},
            "ran": f"SEEDROOT=/tmp/seed6 CHECKS=\"{' '.join(final['checks'])}\" /verif/seedeval.sh {p} {n}  (= MC_REPO=<scratch tree with the patch> ./mc.sh check <Cxx> --tier quick; equivalent to git -C /repo apply patch.diff; ./mc.sh check ...; git -C /repo checkout -- .)",
            "kept": ok,
        }
        if sid2 in DEMO_FIXED:
            meta["demonstration_corrected_by_me"] = DEMO_FIXED[sid2]
            if ok and os.path.exists(f"{src}/demo_test.as-delivered.go.txt"):
                shutil.copy(f"{src}/demo_test.as-delivered.go.txt", f"{d}/demo_test.as-delivered.go.txt")
        if ok:
            json.dump(meta, open(f"{d}/meta.json", "w"), indent=1)
        rows.append(meta)

with open("/verif/seeded/TABLE6.md", "w") as f:
    f.write("| seed | change | needs | suite green / demo fails with / passes without | caught by (quick tier) | not caught by | first evaluation missed |\n|---|---|---|---|---|---|---|\n")
    for m in rows:
        c = m["confirmed_by_me"]
        esc = lambda t: t.replace('|', chr(92)+'|')
        f.write(f"| {m['id']} | {esc(m['change'])} | {esc(m['needs_to_manifest'])} | {'yes' if c['suite_green_with_change'] else 'NO'} / {'yes' if c['demo_fails_with_change'] else 'NO'} / {'yes' if c['demo_passes_without_change'] else 'NO'} | {', '.join(m['caught_by']) or '—'} | {', '.join(m['not_caught_by']) or '—'} | {', '.join(m['first_evaluation_before_strengthening']['not_caught_by']) or '—'} |\n")
print(f"{len(rows)} seeds, kept {sum(1 for m in rows if m['kept'])}, caught by at least one check: {sum(1 for m in rows if m['caught_by'])}, by own check: {sum(1 for m in rows if m['property'] in m['caught_by'])}")
fe = [m for m in rows]
print("first evaluation: own check", sum(1 for m in fe if m['property'] in m['first_evaluation_before_strengthening']['caught_by']), "some check", sum(1 for m in fe if m['first_evaluation_before_strengthening']['caught_by']))
for m in rows:
    if not m["caught_by"] or not m["kept"]:
        print("ATTENTION", m["id"], "kept" if m["kept"] else "NOT-KEPT", m["confirmed_by_me"], m["caught_by"])
