#!/usr/bin/env python3
"""seedkeep2.py: second round of seeded changes. Sources /tmp/seed2-Cxx-out (sub-agent deliverables), logs
/verif/seedlogs/round2last (final evaluation) and /verif/seedlogs/round2 (first evaluation, before strengthening).
Writes /verif/seeded/<P>-3 and <P>-4 (round-2 change 1 and 2) and /verif/seeded/TABLE2.md."""
import json, os, shutil, sys
sys.argv = [sys.argv[0]]
import importlib.util
spec = importlib.util.spec_from_file_location("sk", "/verif/seedkeep_parse.py")
sk = importlib.util.module_from_spec(spec); spec.loader.exec_module(sk)
parse = sk.parse

SUMMARY = {
 "C01-1": ("progress.go Write: the wait for the reply gains a `case <-p.done: return 0, ErrDone` arm", "a Write whose closure was accepted by the container goroutine while p.done closes: the caller leaves, the container goroutine blocks for ever sending the reply on the unbuffered channel, Wait hangs"),
 "C01-2": ("bar.go serve: decorators' OnShutdown hooks called inline on the bar goroutine instead of on goroutines registered in the bar wait group", "a ShutdownListener decorator whose hook calls back into its bar (any Bar method) while the bar goroutine no longer serves requests"),
 "C02-1": ("progress.go serve: the drain goroutine started after a render error leaves on ctx.Done() instead of p.done", "a render error while the refresh listener is blocked forwarding a tick/request"),
 "C02-2": ("heap_manager.go h_push: `sync = sync || data.sync` -> `sync = data.sync`", "width-synchronised decorators + a queued successor replacing a bar while other bars are re-pushed after it in the same flush"),
 "C03-1": ("progress.go flush: rows beyond the frame height are no longer drained (loop stops when the frame is full)", "more rows than the frame height for at least one frame, then the clipped bar fits: its row carries every earlier render"),
 "C03-2": ("bar.go Abort: `s.rmOnComplete = drop` moved above the already-terminal guard", "Abort(true) arriving on a bar that has just completed, before its second final-state frame"),
 "C04-1": ("progress.go flush: same edit as C03-1 of this round (clipped rows not drained)", "more bar rows than terminal lines, later fewer"),
 "C04-2": ("bar.go draw: `stat.AvailableWidth = 0` deleted on the path where decorators used up the width", "decorators at least as wide as the terminal: the filler still draws into a row that is already full"),
 "C05-1": ("bar.go render: frame.noPop / frame.rmOnComplete stamped only on the stage-1 frame", "pop mode + a BarNoPop bar finishing while another bar keeps the container rendering for 3 more cycles"),
 "C05-2": ("progress.go Add: a bar queued behind a predecessor that is no longer running is pushed immediately as well", "BarQueueAfter on a bar that has finished but has not been flushed yet: the successor is in the heap and in queueBars"),
 "C06-1": ("bar.go SetPriority: skipped once the bar's context is done", "SetPriority on a completed/aborted bar that is still displayed"),
 "C06-2": ("progress.go flush: pop priority assigned before the queued-successor test", "pop mode + BarQueueAfter: the successor inherits a pop priority and jumps above the live bars"),
 "C07-1": ("progress.go flush: rows that do not fit the frame height skipped without being read", "more bar rows than the frame may hold, then fewer"),
 "C07-2": ("bar_filler_bar.go: the per-Fill scratch slices hoisted into the filler (reused between draws)", "a bar drawn with progress and later drawn at a width/progress that leaves a segment empty: stale cells of the earlier draw"),
 "C08-1": ("internal/percentage.go: `float64(width*current)/float64(total)` (integer product overflows)", "width*current beyond 2^64 (large current on a wide bar)"),
 "C08-2": ("bar_filler_bar.go: tip wider than the whole bar dropped without giving its cells back to the filled part", "a tip of display width >= 2 on a bar narrower than the tip"),
 "C09-1": ("bar.go SetTotal: `total < 0` -> `total <= 0` (zero total adopts current)", "SetTotal(0, ...) on a bar with current > 0"),
 "C09-2": ("bar.go EwmaIncrInt64/EwmaIncrBy: fast path without the cap at total when the bar has no moving-average decorators", "EwmaIncr* past the total on a bar without ewma decorators"),
 "C10-1": ("bar.go SetTotal: `total = b.Current()` read outside the state closure for negative totals (check-then-act)", "SetTotal(-1, true) concurrent with IncrBy plus a reader that saw the increment"),
 "C10-2": ("decor/size_type.go Format: package-level scratch buffer shared by all size values", "two bars with size-unit decorators rendering concurrently (data race, garbled numbers)"),
 "C11-1": ("bar.go: Aborted/Completed share one buffered reply channel kept in the Bar", "two concurrent getters (Aborted and Completed) on one bar: replies crossed"),
 "C11-2": ("bar.go IncrBy: the completion branch (which also caps current at total) taken only on the transition `prev < total && current >= total`", "one more increment executed by the bar goroutine after the bar completed (auto refresh keeps it serving): current > total, Completed() turns false, the bar ends Aborted"),
 "C12-1": ("heap_manager.go h_sync: column index runs on across the prepend and append sides", "bars with different numbers of prepend decorators and synchronised append decorators"),
 "C12-2": ("decor/decorator.go WC.Format: fill by fmt %-*s (counts runes, not columns)", "a synchronised decorator printing wide or combining characters"),
 "C13-1": ("progress.go serve: `interceptIO = nil` removed from the render-error branch", "Write racing with a render error: accepted, answered (n, nil), never flushed"),
 "C13-2": ("progress.go serve: closing loop rewritten `for s.hm.state(update); <-update; s.hm.state(update)`: the closing render is skipped when the bar set is unchanged", "a successful Progress.Write after the last render cycle and before Wait/shutdown: accepted, never emitted"),
 "C14-1": ("progress.go flush: close(iterDrop) and cancel before the started renders are drained", "render error on one bar while another bar has not yet exchanged its width"),
 "C14-2": ("bar.go unwrap: removes one wrapper layer instead of recursing", "a ShutdownListener decorator wrapped at depth >= 2 (e.g. OnCompleteOrOnAbort): OnShutdown never called"),
 "C15-1": ("cwriter Flush: early return when the frame leaves no lines to overwrite: the write and its error are skipped", "the output fails in exactly a cycle whose frame keeps zero lines (pop frame of the last bar, or text only)"),
 "C15-2": ("bar_option.go makeExtenderFunc: the extender's error swallowed (`return rows, nil`)", "an extender filler returning an error"),
 "C16-1": ("progress.go render: `close(s.iterDrop)` removed from the path that abandons a cycle when the terminal size cannot be read", "output is a terminal and TIOCGWINSZ fails on some refresh: the heap manager stays parked handing bars to nobody"),
 "C16-2": ("progress.go NewWithContext: p.done defaults to ctx.Done() even with a refresh listener", "cancel with a refresh listener running: serve finishes before the listener goroutine, which stays blocked"),
 "C17-1": ("progress.go flush: pop test before the queued-successor test", "pop mode + BarQueueAfter: the predecessor is popped and the successor never takes its place"),
 "C17-2": ("heap_manager.go push: sync=true pushes sent with a blocking send", "queue full when flush hands over a queued successor while the heap manager is blocked handing bars to flush"),
 "C18-1": ("progress.go serve: same closing-loop rewrite as C13-2", "pop mode, bars finishing right before Wait: the popped frame is never drawn"),
 "C18-2": ("bar.go render: `frame.noPop = s.noPop || s.rmOnComplete`", "pop mode + remove-on-complete bar: vanishes instead of being popped"),
 "C19-1": ("proxywriter.go: type switch tests io.ReaderFrom before io.WriteCloser (closer lost)", "a writer implementing both ReaderFrom and Closer: Close of the proxy no longer closes it"),
 "C19-2": ("bar.go EwmaIncrInt64: `s.current = s.total` removed from the completion branch", "ewma proxy read overshooting the total"),
 "C20-1": ("decor/moving_average.go medianWindow.Median sorts the window in place", "three or more samples in non-monotone order: the window loses insertion order and drops the wrong sample"),
 "C20-2": ("proxyreader.go ewma Read: no EwmaIncrBy when n == 0", "zero-byte reads that take time before reads with data (time of the stalls lost from the rate)"),
}

props = {json.loads(l)["id"]: json.loads(l) for l in open("/verif/properties.jsonl")}
rows = []
for p in sorted(props):
    for n in (1, 2):
        sid2 = f"{p}-{n}"
        sid = f"{p}-{n+2}"
        src = f"/tmp/seed2-{p}-out"
        patch = f"{src}/patch.diff" if n == 1 else f"{src}/patch{n}.diff"
        demo = f"{src}/demo_test.go" if n == 1 else f"{src}/demo{n}_test.go"
        notes = f"{src}/notes.txt" if n == 1 else f"{src}/notes{n}.txt"
        final = parse(f"/verif/seedlogs/round2last/{sid2}.log")
        first = parse(f"/verif/seedlogs/round2/{sid2}.log")
        if final is None or not os.path.exists(patch):
            print("MISSING", sid2); continue
        ok = final["suite_green"] and final["demo_fails_with"] and final["demo_passes_without"]
        d = f"/verif/seeded/{sid}"
        if ok:
            os.makedirs(d, exist_ok=True)
            shutil.copy(patch, f"{d}/patch.diff")
            for s, t in ((demo, "demo_test.go"), (notes, "notes.txt")):
                if os.path.exists(s):
                    shutil.copy(s, f"{d}/{t}")
        caught = [c for c, v in final["checks"].items() if v["caught"]]
        missed = [c for c, v in final["checks"].items() if not v["caught"]]
        fc = (first or {"checks": {}})["checks"]
        what, needs = SUMMARY.get(sid2, ("", ""))
        meta = {
            "id": sid, "round": 2, "property": p, "property_title": props[p]["title"],
            "change": what, "needs_to_manifest": needs,
            "author": "sub-agent given only the property text, the one-line descriptions of the round-1 changes (to avoid repeats) and a scratch worktree of /repo (nothing from /verif)",
            "confirmed_by_me": {
                "how": "seedeval.sh: scratch worktree of /repo HEAD; git apply patch; go build; go test -vet=off -count=1 ./...; demonstration run with the change (must fail) and with the change reverted by git apply -R (must pass)",
                "suite_green_with_change": final["suite_green"], "demo_fails_with_change": final["demo_fails_with"], "demo_passes_without_change": final["demo_passes_without"]},
            "checks_run": {c: {"caught": v["caught"], "violation_keys": v["keys"][:6], "run": v["summary"]} for c, v in final["checks"].items()},
            "caught_by": caught, "not_caught_by": missed,
            "first_evaluation_before_strengthening": {"caught_by": [c for c, v in fc.items() if v["caught"]], "not_caught_by": [c for c, v in fc.items() if not v["caught"]]},
            "ran": f"SEEDROOT=/tmp/seed2 CHECKS=\"{' '.join(final['checks'])}\" /verif/seedeval.sh {p} {n}  (= MC_REPO=<scratch tree with the patch> ./mc.sh check <Cxx> --tier quick; equivalent to git -C /repo apply patch.diff; ./mc.sh check ...; git -C /repo checkout -- .)",
            "kept": ok,
        }
        if ok:
            json.dump(meta, open(f"{d}/meta.json", "w"), indent=1)
        rows.append(meta)

with open("/verif/seeded/TABLE2.md", "w") as f:
    f.write("| seed | change | needs | suite green / demo fails with / passes without | caught by (quick tier) | not caught by | first evaluation missed |\n|---|---|---|---|---|---|---|\n")
    for m in rows:
        c = m["confirmed_by_me"]
        f.write(f"| {m['id']} | {m['change'].replace('|', chr(92)+'|')} | {m['needs_to_manifest']} | {'yes' if c['suite_green_with_change'] else 'NO'} / {'yes' if c['demo_fails_with_change'] else 'NO'} / {'yes' if c['demo_passes_without_change'] else 'NO'} | {', '.join(m['caught_by']) or '—'} | {', '.join(m['not_caught_by']) or '—'} | {', '.join(m['first_evaluation_before_strengthening']['not_caught_by']) or '—'} |\n")
print(f"{len(rows)} seeds, kept {sum(1 for m in rows if m['kept'])}, caught by at least one check: {sum(1 for m in rows if m['caught_by'])}, by own check: {sum(1 for m in rows if m['property'] in m['caught_by'])}")
for m in rows:
    if not m["caught_by"] or not m["kept"]:
        print("ATTENTION", m["id"], "kept" if m["kept"] else "NOT-KEPT", m["confirmed_by_me"], m["caught_by"])
