#!/usr/bin/env python3
"""seedkeep.py: turn the sub-agents' deliverables (/tmp/seed-Cxx-out) and my evaluation logs
(/verif/seedlogs/final, first round in /verif/seedlogs) into /verif/seeded/<id>-<n>/ and a markdown table."""
import json, os, re, shutil, sys

SUMMARY = {
 "C01-1": ("heap_manager.go h_push: `sync = sync || data.sync` -> `sync = data.sync`: a later plain re-push erases a pending 'rebuild the width matrices' request",
           "width-synchronised decorators + a BarQueueAfter successor replacing a bar while another bar (added earlier) is re-pushed after it in the same flush (heap length unchanged)"),
 "C01-2": ("progress.go serve: the drain goroutine started after a render error exits on ctx.Done() instead of p.done",
           "a render error while the refresh listener has already accepted a tick/request and is blocked sending it"),
 "C02-1": ("bar.go ID(): fallback branch waits on ctx.Done() instead of bsOk -> nil dereference of b.bs",
           "ID() called between the bar's cancellation and the exit of its goroutine"),
 "C02-2": ("priority_queue.go Pop: `bar.index = -1` deleted -> heap.Fix with a stale index panics in the heap manager",
           "a dropped bar that had the greatest priority value, then a non-lazy priority change addressed to it"),
 "C03-1": ("heap_manager.go h_state: `len != bHeap.Len()` -> `len < bHeap.Len()`: the closing loop no longer notices a bar dropped by the closing render",
           "a remove-on-complete bar with exactly one final-state frame drawn, then an external cancel, then Wait"),
 "C03-2": ("bar.go exit path: `bs.aborted = !bs.completed()` inlined without the aborted term",
           "a bar of total <= 0 aborted while current == total"),
 "C04-1": ("progress.go flush: popped bar counted as one row instead of the rows it used",
           "pop mode + a bar with extender rows completing, then one more frame"),
 "C04-2": ("bar_option.go makeExtenderFunc: an unterminated last line becomes a row of its own",
           "an extender whose output does not end in a newline"),
 "C05-1": ("progress.go flush: `delete(s.queueBars, b)` -> `delete(s.queueBars, qb)`",
           "a chain of three queued bars, the third queued before the first is retired"),
 "C05-2": ("bar.go Abort: `s.rmOnComplete = drop` moved above the already-terminal guard",
           "Abort arriving on a bar that has just completed, before its second final-state frame"),
 "C06-1": ("progress.go: queued bar inherits the predecessor's priority when queued instead of when it takes its place",
           "BarQueueAfter(A), then a priority change of A, then A completing"),
 "C06-2": ("priority_queue.go Less written as a subtraction `a-b > 0` (overflows)",
           "priorities more than MaxInt apart (MaxInt next to a negative priority or to a popped bar)"),
 "C07-1": ("bar.go draw: the decision to reserve the two spaces around the body taken before the decorators consumed width",
           "narrow terminal, untrimmed bar, decorators leaving 0 or 1 free columns"),
 "C07-2": ("bar_filler_bar.go Build: right bound's cached width read from the left bound",
           "left and right bounds of different display width"),
 "C08-1": ("internal/percentage.go PercentageRound: guard for negative current lost (`total <= 0` only)",
           "negative current on a positive total (IncrInt64(-1) on a fresh bar)"),
 "C08-2": ("bar_filler_bar.go Fill: the implicit clamp of the refill segment wrapped in `if curWidth >= refWidth`",
           "refill mark beyond current (SetCurrent(90); SetRefill(90); SetCurrent(10))"),
 "C09-1": ("bar.go Abort: `if s.aborted || s.completed()` -> `if s.aborted`",
           "auto refresh (the completed bar's goroutine still serves), Abort after completion"),
 "C09-2": ("bar.go SetRefill: comparison inverted (max instead of min)",
           "SetRefill with an amount different from current, observed through Statistics.Refill"),
 "C10-1": ("bar.go EwmaIncrInt64: early return in the completing branch skips wg.Wait()",
           "a bar with a built-in EWMA decorator completed through an Ewma* call, and a render overlapping the straggling update goroutine"),
 "C10-2": ("bar.go ID(): same slip as C02-1 (ctx.Done() instead of bsOk)", "ID() in the cancel-to-exit window"),
 "C11-1": ("bar.go Abort: completed check hoisted out of the closure (check-then-act through b.Completed())",
           "an increment reaching the total between Abort's check and Abort's closure, in auto refresh"),
 "C11-2": ("bar.go exit path: `bs.aborted = bs.aborted || bs.current != bs.total`",
           "an untriggered bar with current == total ended only by cancellation"),
 "C12-1": ("decor/decorator.go WC.Format: width exchange before the min-width / extra-space adjustment",
           "a synchronised column whose members have different WC settings"),
 "C12-2": ("heap_manager.go h_push: same edit as C01-1", "queued successor + synchronised decorators + a third bar"),
 "C13-1": ("progress.go flush: `if len(rows) == 0 { return nil }` before the flush",
           "text written when no bar is left in the container"),
 "C13-2": ("progress.go Write: returns before the container goroutine has copied the bytes",
           "a caller that reuses its buffer for the next line"),
 "C14-1": ("bar.go decoratorsOnShutdown: bwg.Add(1) moved inside the notification goroutine",
           "a shutdown listener, and Wait waking up before the notification goroutine starts"),
 "C14-2": ("progress.go serve: `break` -> `return` after a failed closing render (skips hm.end)",
           "the render performed after cancellation fails, with no render error before"),
 "C15-1": ("progress.go flush: close(iterDrop) before draining the started renders",
           "render error in a bar popped first while another bar has not yet exchanged its width"),
 "C15-2": ("progress.go serve: `else if s.autoRefresh` -> separate `if`: closing render also after an error shutdown",
           "auto refresh + render error (+ a bar collected before the failing one)"),
 "C16-1": ("progress.go closing loop: hm.state(update) sent before the render-error check",
           "failure of exactly the closing render"),
 "C16-2": ("heap_manager.go h_push: same edit as C01-1", "queued successor + sync decorator + earlier-added bar"),
 "C17-1": ("progress.go flush: same edit as C05-1 (wrong key deleted)", "chain of three"),
 "C17-2": ("progress.go Add: queue only if the predecessor IsRunning()",
           "no auto refresh: successor created after the predecessor finished but before it was flushed"),
 "C18-1": ("progress.go flush case 2: `popCount += usedRows` -> `popCount = usedRows`",
           "two bars reaching their popped frame in the same cycle"),
 "C18-2": ("progress.go flush case 1: pop guard loses `&& !frame.noPop`", "pop mode + a finishing BarNoPop bar"),
 "C19-1": ("proxyreader.go Read: early return on error before IncrBy(n)", "a reader returning n>0 together with an error/EOF"),
 "C19-2": ("bar.go EwmaIncrInt64: `d := d` removed (shared loop variable, go 1.17 semantics)", "two moving-average decorators on one bar"),
 "C20-1": ("bar.go unwrap: removes one wrapper layer instead of recursing", "an estimator nested under two or more wrappers"),
 "C20-2": ("decor/speed.go EwmaUpdate: `d.zDur = 0` dropped", "a sample without progress followed by ordinary samples"),
}

def parse(logpath):
    if not os.path.exists(logpath):
        return None
    txt = open(logpath).read()
    res = {"suite_green": False, "demo_fails_with": False, "demo_passes_without": False, "checks": {}}
    sec = None
    cur = None
    for line in txt.splitlines():
        if line.startswith("== "):
            sec = line
            m = re.match(r"== check (C\d+) with change", line)
            cur = m.group(1) if m else None
            if cur:
                res["checks"][cur] = {"caught": False, "keys": [], "summary": ""}
            continue
        if sec is None:
            continue
        if sec.startswith("== suite"):
            if line.startswith("ok") and "mpb/v8\t" in line:
                res["suite_green"] = True
            if line.startswith("FAIL"):
                res["suite_green"] = False
        elif sec.startswith("== demo without"):
            if line.startswith("ok"):
                res["demo_passes_without"] = True
        elif sec.startswith("== demo with"):
            if line.startswith("FAIL") or "--- FAIL" in line:
                res["demo_fails_with"] = True
        elif cur:
            c = res["checks"][cur]
            m = re.search(r"violation key=(\S+)", line)
            if m:
                k = m.group(1).split("|")[0]
                if k not in c["keys"]:
                    c["keys"].append(k)
                c["caught"] = True  # these lines are printed only for violations that match no known finding
            if line.startswith("VIOLATION"):
                c["caught"] = True
            if " quick: items=" in line or " thorough: items=" in line:
                c["summary"] = line.strip()[:160]
    return res

props = {json.loads(l)["id"]: json.loads(l) for l in open("/verif/properties.jsonl")}
rows = []
os.makedirs("/verif/seeded", exist_ok=True)
for p in sorted(props):
    for n in (1, 2):
        sid = f"{p}-{n}"
        src = f"/tmp/seed-{p}-out"
        patch = f"{src}/patch.diff" if n == 1 else f"{src}/patch{n}.diff"
        demo = f"{src}/demo_test.go" if n == 1 else f"{src}/demo{n}_test.go"
        notes = f"{src}/notes.txt" if n == 1 else f"{src}/notes{n}.txt"
        final = parse(f"/verif/seedlogs/final/{sid}.log")
        first = parse(f"/verif/seedlogs/{sid}.log")
        if final is None or not os.path.exists(patch):
            continue
        ok = final["suite_green"] and final["demo_fails_with"] and final["demo_passes_without"]
        d = f"/verif/seeded/{sid}"
        if ok:
            os.makedirs(d, exist_ok=True)
            shutil.copy(patch, f"{d}/patch.diff")
            if os.path.exists(demo):
                shutil.copy(demo, f"{d}/demo_test.go")
            if os.path.exists(notes):
                shutil.copy(notes, f"{d}/notes.txt")
        caught = [c for c, v in final["checks"].items() if v["caught"]]
        missed = [c for c, v in final["checks"].items() if not v["caught"]]
        first_missed = [c for c, v in (first or {"checks": {}})["checks"].items() if not v["caught"]]
        first_caught = [c for c, v in (first or {"checks": {}})["checks"].items() if v["caught"]]
        what, needs = SUMMARY.get(sid, ("", ""))
        meta = {
            "id": sid, "property": p, "property_title": props[p]["title"],
            "change": what, "needs_to_manifest": needs,
            "author": "sub-agent given only the property text and a scratch worktree of /repo (nothing from /verif)",
            "confirmed_by_me": {
                "how": "seedeval.sh: scratch worktree of /repo HEAD; git apply patch; go build; go test -vet=off -count=1 ./...; demonstration run with the change (must fail) and with the change reverted by git apply -R (must pass)",
                "suite_green_with_change": final["suite_green"], "demo_fails_with_change": final["demo_fails_with"], "demo_passes_without_change": final["demo_passes_without"]},
            "checks_run": {c: {"caught": v["caught"], "violation_keys": v["keys"][:6], "run": v["summary"]} for c, v in final["checks"].items()},
            "caught_by": caught, "not_caught_by": missed,
            "first_evaluation_before_strengthening": {"caught_by": first_caught, "not_caught_by": first_missed},
            "ran": f"CHECKS=\"{' '.join(final['checks'])}\" /verif/seedeval.sh {p} {n}  (= MC_REPO=<scratch tree with the patch> ./mc.sh check <Cxx> --tier quick; equivalent to git -C /repo apply patch.diff; ./mc.sh check ...; git -C /repo checkout -- .)",
            "kept": ok,
        }
        if ok:
            json.dump(meta, open(f"{d}/meta.json", "w"), indent=1)
        rows.append(meta)

with open("/verif/seeded/TABLE.md", "w") as f:
    f.write("| seed | change | needs | suite green / demo fails with / passes without | caught by (quick tier) | not caught by | first evaluation missed |\n|---|---|---|---|---|---|---|\n")
    for m in rows:
        c = m["confirmed_by_me"]
        f.write(f"| {m['id']} | {m['change'].replace('|', chr(92)+'|')} | {m['needs_to_manifest']} | {'yes' if c['suite_green_with_change'] else 'NO'} / {'yes' if c['demo_fails_with_change'] else 'NO'} / {'yes' if c['demo_passes_without_change'] else 'NO'} | {', '.join(m['caught_by']) or '—'} | {', '.join(m['not_caught_by']) or '—'} | {', '.join(m['first_evaluation_before_strengthening']['not_caught_by']) or '—'} |\n")
print(f"{len(rows)} seeds, kept {sum(1 for m in rows if m['kept'])}, caught by at least one check: {sum(1 for m in rows if m['caught_by'])}")
for m in rows:
    if not m["caught_by"] or not m["kept"]:
        print("ATTENTION", m["id"], "kept" if m["kept"] else "NOT-KEPT", m["confirmed_by_me"], m["caught_by"])
