package scen

import (
	"strings"

	"mcrt"
	"mcrt/explore"
)

// Cross-family slices. C01 (Wait returns), C02 (no panic, no hang) and C16 (no goroutine left behind) quantify over
// every configuration and every use of the API, and their oracles need nothing but the verdict of an execution (and
// the leak event the harness raises at quiescence). Their checks therefore also run the programs that the other
// concurrent families generate (width synchronisation, cancellation, render errors, queued bars, pop mode, priorities,
// text, terminal frames), with the other family's oracle replaced by the generic one. The foreign programs are taken
// from the quick tier of their family; each runs with no deviation under every base strategy the family uses and with
// one deviation under the first.
var crossFamilies = []string{"C03", "C05", "C06", "C12", "C13", "C14", "C15", "C17", "C18", "C04"}

// crossVerdict maps the outcome of a foreign item's execution to the generic property's verdict.
type crossVerdict func(out *explore.Outcome) (clause, detail string)

func crossItems(prop, tier string, judge crossVerdict) []Item {
	var items []Item
	seen := map[string]bool{}
	for _, fam := range crossFamilies {
		f := Families[fam]
		if f == nil || fam == prop {
			continue
		}
		first := map[string]int{}
		for _, it := range f.Items("quick") {
			if it.Chunk != nil || it.Race || it.All || it.Exec == nil || strings.Contains(it.Sample, " pty=") {
				continue
			}
			if _, ok := first[it.Sample]; !ok {
				first[it.Sample] = it.Strat
			}
			bound := 0
			if it.Strat == first[it.Sample] && it.Bound > 0 {
				bound = 1
			}
			name := "x" + fam + ":" + it.Sample + "/" + stratNames[it.Strat] + "/d" + string(rune('0'+bound))
			if seen[name] {
				continue
			}
			seen[name] = true
			inner := it.Exec
			items = append(items, Item{
				Name: name, Bound: bound, Strat: it.Strat, Tags: it.Tags, Sample: "x" + fam + ":" + it.Sample, Cfg: it.Cfg,
				Exec: func(ch mcrt.Chooser, cfg mcrt.Config) *explore.Outcome {
					out := inner(ch, cfg)
					// the foreign family's own oracle does not count here
					foreign := out.Violation == "ORACLE"
					if foreign {
						out.Violation, out.Key, out.Detail = "", "", ""
					}
					if out.Violation != "" {
						// a scheduler verdict (deadlock, starvation, livelock, panic, fuel): kept when the property covers it
						if clause, detail := judge(out); clause == "" && detail == "" {
							out.Violation, out.Key, out.Detail = "", "", ""
						}
						return out
					}
					if clause, detail := judge(out); clause != "" {
						out.Violation, out.Key, out.Detail = "ORACLE", "ORACLE:"+clause, detail
					}
					return out
				},
			})
		}
	}
	return items
}

func hasEvent(out *explore.Outcome, ev string) bool {
	for _, e := range out.Events {
		if e == ev {
			return true
		}
	}
	return false
}

// judgeHang: C01 and C02 — any verdict of the scheduler that means "did not return" (C02: or panicked) counts.
func judgeHang(withPanic bool) crossVerdict {
	return func(out *explore.Outcome) (string, string) {
		if out.Res == nil {
			return "", ""
		}
		switch out.Res.Verdict {
		case mcrt.VDeadlock, mcrt.VStarved, mcrt.VLivelock:
			return "verdict", out.Res.Msg
		case mcrt.VPanic, mcrt.VFuel:
			if withPanic {
				return "verdict", out.Res.Msg
			}
		}
		return "", ""
	}
}

// judgeLeak: C16 — the execution ended in order and a library thread was still alive at quiescence.
func judgeLeak(out *explore.Outcome) (string, string) {
	if out.Res != nil && out.Res.Verdict != "" {
		return "", ""
	}
	if hasEvent(out, "leak") {
		return "leak", "a thread started by the library has not exited at quiescence (program of another family, generic oracle): " + trunc(out.Obs, 400)
	}
	return "", ""
}
