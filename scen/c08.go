package scen

import (
	"bytes"
	"fmt"
	"math/big"
	"unicode/utf8"

	"github.com/mattn/go-runewidth"
	"github.com/vbauerster/mpb/v8"
	"github.com/vbauerster/mpb/v8/decor"
)

// C08: the filled part of a bar is proportional to progress and never moves backwards.

type fillStyle struct {
	name                                   string
	lb, rb, refiller, filler, tip, padding string
	rev                                    bool
}

var c08Styles = []fillStyle{
	{"ascii", "[", "]", "+", "=", ">", "-", false},
	{"ascii-rev", "[", "]", "+", "=", ">", "-", true},
	{"wide-filler", "[", "]", "+", "界", ">", "-", false},
	{"wide-tip", "|", "|", "r", "=", "だ", ".", false},
	{"tip3", "[", "]", "+", "=", ">>>", "-", false},
}

func (s fillStyle) build() mpb.BarFiller {
	c := mpb.BarStyle().Lbound(s.lb).Rbound(s.rb).Refiller(s.refiller).Filler(s.filler).Tip(s.tip).Padding(s.padding)
	if s.rev {
		c = c.Reverse()
	}
	return c.Build()
}

type cells struct {
	refill, filler, tip, padding, other int // display columns per component
	ok                                  bool
}

func (s fillStyle) classify(out string) cells {
	var c cells
	c.ok = utf8.ValidString(out)
	rest := out
	for len(rest) > 0 {
		matched := false
		for _, comp := range []struct {
			str string
			n   *int
		}{{s.refiller, &c.refill}, {s.filler, &c.filler}, {s.tip, &c.tip}, {s.padding, &c.padding}, {s.lb, &c.other}, {s.rb, &c.other}, {"…", &c.padding}} {
			if comp.str != "" && len(rest) >= len(comp.str) && rest[:len(comp.str)] == comp.str {
				*comp.n += runewidth.StringWidth(comp.str)
				rest = rest[len(comp.str):]
				matched = true
				break
			}
		}
		if !matched {
			c.ok = false
			_, n := utf8.DecodeRuneInString(rest)
			rest = rest[n:]
		}
	}
	return c
}

var two63 = new(big.Int).Lsh(big.NewInt(1), 63)

// wantFilled = round(inner*cur/total), half away from zero, in exact arithmetic
func wantFilled(inner int, total, cur int64) int {
	if inner <= 0 || total <= 0 || cur <= 0 {
		return 0
	}
	if cur >= total {
		return inner
	}
	num := new(big.Int).Mul(big.NewInt(int64(inner)), big.NewInt(cur))
	num.Mul(num, big.NewInt(2))
	num.Add(num, big.NewInt(total))
	den := new(big.Int).Mul(big.NewInt(2), big.NewInt(total))
	return int(new(big.Int).Div(num, den).Int64())
}

func c08Case(env *SeqEnv, st fillStyle, filler mpb.BarFiller, w int, total, cur, refill int64, prev *int) {
	c08CaseC(env, st, filler, w, total, cur, refill, prev, false)
	if total <= 0 && cur == total {
		// what a bar of unknown total reports once SetTotal(-1, true) completed it: still nothing to fill
		c08CaseC(env, st, filler, w, total, cur, refill, prev, true)
	}
}

func c08CaseC(env *SeqEnv, st fillStyle, filler mpb.BarFiller, w int, total, cur, refill int64, prev *int, completed bool) {
	id := fmt.Sprintf("%s w=%d total=%d cur=%d refill=%d", st.name, w, total, cur, refill)
	if completed {
		id += " completed"
	}
	env.Case(id, func() (string, bool, string, string) {
		var buf bytes.Buffer
		stat := decor.Statistics{AvailableWidth: w, Total: total, Current: cur, Refill: refill, Completed: completed || (total > 0 && cur >= total)}
		err := filler.Fill(&buf, stat)
		out := buf.String()
		if err != nil {
			return out + "|err=" + err.Error(), true, "fill-error", err.Error()
		}
		inner := w - runewidth.StringWidth(st.lb) - runewidth.StringWidth(st.rb)
		if inner <= 0 {
			return out, false, "", ""
		}
		c := st.classify(out)
		if !c.ok {
			return out, true, "unparsable", fmt.Sprintf("output %q does not decompose into the style's components", out)
		}
		filled := c.refill + c.filler + c.tip
		want := wantFilled(inner, total, cur)
		// a multi-column filler may leave up to (width-1) cells unfilled; a multi-column tip may overhang the filled
		// part by up to (width-1) cells (draw_test.go enshrines this) but is dropped when wider than the whole bar
		under, over := 0, 0
		if fw := runewidth.StringWidth(st.filler); fw > 1 {
			under = fw - 1
		}
		if tw := runewidth.StringWidth(st.tip); tw > 1 {
			over = tw - 1
			under = 1
			if tw > 2 {
				under = 0
			}
		}
		big53 := int64(1) << 53
		if total > big53 || cur > big53 {
			under++ // beyond float64's integer range the nearest cell may differ by one at a .5 boundary
			over++
		}
		tol := under
		if over > tol {
			tol = over
		}
		nontrivial := want > 0 && want < inner
		if d := filled - want; d > over || -d > under {
			return out, nontrivial, "proportional", fmt.Sprintf("%d of %d cells filled, round(inner*current/total) = %d: %q", filled, inner, want, out)
		}
		if c.refill > filled {
			return out, nontrivial, "refill-exceeds-filled", fmt.Sprintf("refill %d cells, filled %d: %q", c.refill, filled, out)
		}
		if prev != nil {
			// for a multi-column rune the filled count is only determined to within one rune
			// (a 2-column filler cannot occupy a single remaining cell): same tolerance as above
			if *prev >= 0 && filled < *prev-tol {
				p := *prev
				*prev = filled
				return out, nontrivial, "monotone", fmt.Sprintf("filled cells went from %d to %d when current grew to %d: %q", p, filled, cur, out)
			}
			*prev = filled
		}
		return out, nontrivial, "", ""
	})
}

func c08Lattice(tier string) []int64 {
	ks := []uint{31, 32, 53, 62}
	if tier == "thorough" {
		ks = nil
		for k := uint(4); k <= 62; k++ {
			ks = append(ks, k)
		}
	}
	vals := []int64{0, 1, 2, 3}
	for _, k := range ks {
		v := int64(1) << k
		vals = append(vals, v-1, v, v+1)
	}
	vals = append(vals, 1<<63-1, (1<<63-1)/2, (1<<63-1)/2+1)
	for _, w := range []uint64{3, 10, 78, 98, 198} {
		q := (^uint64(0)) / w
		if q < 1<<63 {
			vals = append(vals, int64(q)-1, int64(q), int64(q)+1)
		}
	}
	// sort + dedupe
	for i := range vals {
		for j := i + 1; j < len(vals); j++ {
			if vals[j] < vals[i] {
				vals[i], vals[j] = vals[j], vals[i]
			}
		}
	}
	out := vals[:0]
	for i, v := range vals {
		if i == 0 || v != vals[i-1] {
			out = append(out, v)
		}
	}
	return out
}

func c08Chunks(tier string) []SeqChunk {
	var chunks []SeqChunk
	widths := []int{0, 1, 2, 3, 4, 7, 10, 17, 40, 80}
	hi := int64(8)
	if tier == "thorough" {
		widths = nil
		for w := 0; w <= 40; w++ {
			widths = append(widths, w)
		}
		widths = append(widths, 80, 100, 200)
		hi = 24
	}
	for _, st := range c08Styles {
		st := st
		for _, w := range widths {
			w := w
			chunks = append(chunks, SeqChunk{Name: fmt.Sprintf("c08-cube-%s-w%d", st.name, w), Gen: func(env *SeqEnv) {
				filler := st.build()
				for total := int64(-1); total <= hi; total++ {
					for refill := int64(0); refill <= hi; refill++ {
						prev := -1
						for cur := int64(-1); cur <= hi; cur++ {
							// refill beyond current is reachable (SetCurrent(90); SetRefill(90); SetCurrent(10)): the refill
							// segment must then be clamped to the filled segment
							r := refill
							c08Case(env, st, filler, w, total, cur, r, &prev)
						}
					}
				}
			}})
		}
	}
	// the same cube walked with the total moving while current and width stand still (a bar of dynamic total between
	// two frames): one filler instance draws all of it, so anything it remembers from the previous frame shows
	for _, st := range c08Styles {
		st := st
		for _, w := range widths {
			w := w
			chunks = append(chunks, SeqChunk{Name: fmt.Sprintf("c08-cube-total-moves-%s-w%d", st.name, w), Gen: func(env *SeqEnv) {
				filler := st.build()
				st2 := st
				st2.name = st.name + "/total-moves"
				for cur := int64(-1); cur <= hi; cur++ {
					for _, refill := range []int64{0, cur / 2} {
						for total := int64(-1); total <= hi; total++ {
							prev := -1
							c08Case(env, st2, filler, w, total, cur, refill, &prev)
						}
					}
				}
			}})
		}
	}
	lat := c08Lattice(tier)
	lw := []int{3, 12, 100}
	if tier == "thorough" {
		lw = []int{3, 5, 12, 80, 100, 200}
	}
	for _, st := range c08Styles[:2] {
		st := st
		for _, w := range lw {
			w := w
			chunks = append(chunks, SeqChunk{Name: fmt.Sprintf("c08-lattice-%s-w%d", st.name, w), Gen: func(env *SeqEnv) {
				filler := st.build()
				for _, total := range lat {
					for _, rf := range []int{0, 1} {
						prev := -1
						for _, cur := range lat {
							refill := int64(0)
							if rf == 1 {
								refill = cur / 2
							}
							c08Case(env, st, filler, w, total, cur, refill, &prev)
						}
					}
				}
			}})
		}
	}
	return chunks
}

func init() {
	SeqFamilies["C08"] = c08Chunks
	register(&Family{
		Property: "C08",
		Rule: "also: the small cube walked with the total moving while current and width stand still, all under one filler instance; " +
			"BarFiller.Fill of four styles (ASCII, reversed, 2-column filler, 2-column tip) driven directly with every (total, current, refill) of the cube {-1..8}^3 (thorough {-1..24}^3) at widths {0..4,7,10,17,40,80} (thorough 0..40,80,100,200), " +
			"and with every (total,current) pair of a boundary lattice {0..3, 2^k-1, 2^k, 2^k+1 for k in 31,32,53,62 (thorough every k in 4..62), 2^63-1, (2^63-1)/2, floor((2^64-1)/w)+-1} with refill in {0, current/2}. " +
			"Oracle: output decomposes into the style's components; filled+tip cells == round(inner*current/total) computed in math/big (tolerance one cell for 2-column runes and for operands above 2^53); refill <= filled; along each chain of increasing current the filled count never decreases (which covers all pairs). Non-trivial = 0 < expected < inner. Every terminating case is re-executed on the unmodified package and the output digests are compared.",
		Items: func(tier string) []Item { return seqItems("C08", tier) },
	})
}
