package scen

import (
	"mcrt"
)

// Programs small enough for the unbounded search (every interleaving, no deviation bound; executions that reach a
// happens-before state already expanded are cut, see DESIGN 2.3). Sizes measured in DESIGN 13.4.
func tinyPrograms() []*Spec {
	var out []*Spec
	one := func(name, rf string, clients ...[]Op) *Spec {
		sp := &Spec{Name: "tiny-" + name, Refresh: rf, Q: -1, Notifier: true}
		sp.Bars = []BarSpec{{Total: 1}}
		sp.Main = []Op{{K: "add", B: 0}}
		sp.Clients = clients
		return sp
	}
	incr := []Op{{K: "incr", B: 0, N: 1}}
	out = append(out, &Spec{Name: "tiny-empty", Refresh: "none", Q: -1, Notifier: true})
	out = append(out, &Spec{Name: "tiny-empty", Refresh: "manual", Q: -1, Notifier: true})
	out = append(out, one("incr", "none", incr))
	out = append(out, one("incr-abort", "none", incr, []Op{{K: "abort", B: 0}}))
	out = append(out, one("incr-abortdrop", "none", incr, []Op{{K: "abort", B: 0, F: true}}))
	out = append(out, one("cancel", "none", []Op{{K: "cancel"}}))
	// (incr-cancel: about 9 million executions, at the edge of the thorough budget; kept for experiments, not registered)
	out = append(out, one("incr-cancel", "none", incr, []Op{{K: "cancel"}}))
	out = append(out, one("shutdown", "none", []Op{{K: "shutdown"}}))
	// (incr-shutdown is kept for experiments; it needs more than 10^7 executions and is not registered)
	out = append(out, one("incr-shutdown", "none", incr, []Op{{K: "shutdown"}}))
	out = append(out, one("incr-write", "none", incr, []Op{{K: "write", S: "x\n"}}))
	out = append(out, one("incr-getters", "none", incr, []Op{{K: "comp", B: 0}, {K: "abrt", B: 0}}))
	two := &Spec{Name: "tiny-two", Refresh: "none", Q: -1, Notifier: true}
	two.Bars = []BarSpec{{Total: 1}, {Total: 1}}
	two.Main = []Op{{K: "add", B: 0}, {K: "add", B: 1}}
	two.Clients = [][]Op{{{K: "incr", B: 0, N: 1}}, {{K: "incr", B: 1, N: 1}}}
	out = append(out, two)
	steps := one("two-steps", "none", []Op{{K: "incr", B: 0, N: 1}, {K: "incr", B: 0, N: 1}})
	steps.Bars[0].Total = 2
	out = append(out, steps)
	out = append(out, one("incr-refresh", "manual", []Op{{K: "incr", B: 0, N: 1}, {K: "refresh"}}))
	return out
}

// allItems registers one unbounded item per tiny program named (all of them when names is empty).
func allItems(prop string, oracle func(sp *Spec, x *X, res *mcrt.Result) (string, string), late []Op, names ...string) []Item {
	var items []Item
	for _, sp := range tinyPrograms() {
		if len(names) > 0 {
			ok := false
			for _, n := range names {
				ok = ok || sp.Name == "tiny-"+n
			}
			if !ok {
				continue
			}
		}
		sp.Late = late
		its := specItems(prop, sp, 0, []int{mcrt.StratFIFO}, nil, oracle)
		its[0].All, its[0].Ticks = true, 1
		its[0].Name += "/all"
		items = append(items, its[0])
	}
	return items
}
