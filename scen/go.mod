module scen

go 1.21

require (
	github.com/VividCortex/ewma v1.2.0
	github.com/acarl005/stripansi v0.0.0-20180116102854-5a71ef0e047d
	github.com/mattn/go-runewidth v0.0.16
	github.com/vbauerster/mpb/v8 v8.0.0
	golang.org/x/sys v0.30.0
	mcrt v0.0.0
)

require github.com/rivo/uniseg v0.4.7 // indirect

replace github.com/vbauerster/mpb/v8 => /repo

replace mcrt => /verif/mcrt
