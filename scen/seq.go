package scen

import (
	"crypto/sha256"
	"encoding/hex"
	"fmt"
	"hash"
	"runtime/debug"
	"strings"

	"mcrt"
)

// Sequential enumeration support (C07, C08, C09, C19, C20): a chunk is a
// deterministic generator of cases; each case drives the real code and returns
// its canonical output plus, optionally, an oracle violation. The instrumented
// run (under mcrt, with loop fuel) evaluates the oracles; the pristine binary
// re-runs the terminating cases on the unmodified package and the two output
// digests must agree.

type SeqChunk struct {
	Name string
	// NoPristine marks chunks that depend on the virtual clock and are therefore only run on the instrumented copy.
	NoPristine bool
	Gen        func(env *SeqEnv)
}

type SeqEnv struct {
	Pristine bool
	Skip     map[string]bool // pristine: cases that did not terminate normally in the instrumented run
	MaxFound int

	Cases      int64
	Nontrivial int64
	Skipped    []string
	Found      []SeqFound
	Samples    []string
	Dump       func(id, out string)
	States     int64
	Trans      int64
	h          hash.Hash
	seenKey    map[string]int
}

func NewSeqEnv(pristine bool) *SeqEnv {
	return &SeqEnv{Pristine: pristine, h: sha256.New(), seenKey: map[string]int{}, Skip: map[string]bool{}, MaxFound: 40}
}

func (e *SeqEnv) Digest() string { return hex.EncodeToString(e.h.Sum(nil)) }

// Case runs one case. f returns the canonical output, whether the case is
// non-trivial by the family's rule, and an oracle verdict (key, detail).
func (e *SeqEnv) Case(id string, f func() (out string, nontrivial bool, key, detail string)) {
	if e.Pristine && e.Skip[id] {
		return
	}
	var out, key, detail string
	var nt bool
	status := ""
	func() {
		defer func() {
			if r := recover(); r != nil {
				if mcrt.IsFuel(r) {
					status = "FUEL"
				} else {
					status = "PANIC"
					detail = fmt.Sprint(r) + "\n" + string(debug.Stack())
				}
				mcrt.ResetFuel()
			}
		}()
		mcrt.ResetFuel()
		out, nt, key, detail = f()
	}()
	e.Cases++
	if status != "" {
		e.Skipped = append(e.Skipped, id)
		if status == "FUEL" {
			key, detail = "FUEL", "a loop did not terminate within the iteration budget"
		} else {
			key = "PANIC:" + firstLineOf(detail)
		}
		nt = true
	} else {
		fmt.Fprintf(e.h, "%s\x00%s\x01", id, out)
		if e.Dump != nil {
			e.Dump(id, out)
		}
	}
	if nt {
		e.Nontrivial++
	}
	if len(e.Samples) < 3 && nt {
		e.Samples = append(e.Samples, id+" => "+trunc(out, 160))
	}
	if key != "" && !e.Pristine {
		e.seenKey[key]++
		if e.seenKey[key] <= 2 && len(e.Found) < e.MaxFound {
			e.Found = append(e.Found, SeqFound{Key: key, Detail: detail, Input: id})
		}
	}
}

func firstLineOf(s string) string {
	if i := strings.IndexByte(s, '\n'); i >= 0 {
		return s[:i]
	}
	return s
}

func trunc(s string, n int) string {
	if len(s) > n {
		return s[:n] + "..."
	}
	return s
}

// SeqFamilies maps property -> tier -> chunks.
var SeqFamilies = map[string]func(tier string) []SeqChunk{}

// RunChunkInstrumented executes a chunk inside an mcrt execution (so loop fuel is active).
func RunChunkInstrumented(c SeqChunk) *SeqEnv {
	env := NewSeqEnv(false)
	res := mcrt.Run(mcrt.Config{FuelLimit: 50000, MaxSteps: 1 << 30, FairAfter: 1 << 30}, mcrt.ChooserFunc(func(int) int { return 0 }), func() { c.Gen(env) })
	if res.Verdict != "" {
		env.Found = append(env.Found, SeqFound{Key: "HARNESS:" + res.Verdict, Detail: res.Msg + "\n" + res.Stack, Input: c.Name})
	}
	return env
}

// RunChunkPristine executes a chunk directly (used by the pristine binary).
func RunChunkPristine(c SeqChunk, skip []string, dump func(id, out string)) *SeqEnv {
	env := NewSeqEnv(true)
	env.Dump = dump
	for _, s := range skip {
		env.Skip[s] = true
	}
	c.Gen(env)
	return env
}
