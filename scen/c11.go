package scen

import (
	"fmt"
	"strings"

	"mcrt"
)

// C11: a bar's terminal state is exclusive and never changes.

type caState struct{ comp, abort bool }

func parseCA(res string) caState {
	return caState{strings.Contains(res, "comp=true"), strings.Contains(res, "abort=true")}
}

func stickyViolation(prev, cur caState) string {
	if cur.comp && cur.abort {
		return "both"
	}
	if prev.comp && !(cur.comp && !cur.abort) {
		return "completed-changed"
	}
	if prev.abort && !(cur.abort && !cur.comp) {
		return "aborted-changed"
	}
	return ""
}

func c11Oracle(sp *Spec, x *X, res *mcrt.Result) (string, string) {
	if x.WaitStep == 0 {
		return "wait-not-returned", "Progress.Wait did not return"
	}
	// per observer thread: the sequence of its reads of one bar is in program order
	type key struct{ client, bar int }
	last := map[key]caState{}
	waited := map[key]bool{} // this client's Bar.Wait on that bar has returned
	for _, c := range x.Calls {
		if strings.HasPrefix(c.Op, "barwait") && c.Res != "skipped" && c.Ret > 0 {
			var b int
			fmt.Sscanf(c.Op, "barwait%d", &b)
			waited[key{c.Client, b}] = true
			continue
		}
		if !strings.HasPrefix(c.Op, "get") || c.Res == "skipped" {
			continue
		}
		var b int
		fmt.Sscanf(c.Op, "get%d", &b)
		cur := parseCA(c.Res)
		k := key{c.Client, b}
		if waited[k] && cur.comp == cur.abort {
			return "terminal-not-exclusive-after-barwait", fmt.Sprintf("bar %d: client %d read %s after its Bar.Wait returned", b, c.Client, c.Res)
		}
		if c.Client == 0 && c.Inv >= x.WaitStep {
			// main's late reads: every earlier read of any thread happened before (Wait joined nothing, but
			// all clients were joined before the late calls), so compare with all of them
			for kk, pv := range last {
				if kk.bar == b {
					if v := stickyViolation(pv, cur); v != "" {
						return v, fmt.Sprintf("bar %d: client %d read %+v, later read after Wait: %s", b, kk.client, pv, c.Res)
					}
				}
			}
			if cur.comp == cur.abort {
				return "terminal-not-exclusive", fmt.Sprintf("bar %d after Wait: %s", b, c.Res)
			}
		}
		if v := stickyViolation(last[k], cur); v != "" {
			return v, fmt.Sprintf("bar %d: client %d read %+v then %s", b, c.Client, last[k], c.Res)
		}
		last[k] = cur
	}
	// the Statistics handed to the filler in successive frames
	lastF := map[int]caState{}
	for _, f := range x.Fills {
		cur := caState{f.Completed, f.Aborted}
		if v := stickyViolation(lastF[f.Bar], cur); v != "" {
			return "frame-" + v, fmt.Sprintf("bar %d: a frame was drawn with %+v after one with %+v", f.Bar, cur, lastF[f.Bar])
		}
		lastF[f.Bar] = cur
	}
	return "", ""
}

type c11Letter struct {
	name string
	op   func(total int64) Op
	ends bool // makes the bar terminal on its own in some states
}

var c11Alphabet = []c11Letter{
	{"incr1", func(t int64) Op { return Op{K: "incr", B: 0, N: 1} }, false},
	{"incrT", func(t int64) Op { return Op{K: "incr", B: 0, N: max64(t, 1)} }, false},
	{"setcurT", func(t int64) Op { return Op{K: "setcur", B: 0, N: max64(t, 1)} }, false},
	{"settotalC", func(t int64) Op { return Op{K: "settotal", B: 0, N: -1, F: true} }, false},
	{"trigger", func(t int64) Op { return Op{K: "trigger", B: 0} }, false},
	{"abort", func(t int64) Op { return Op{K: "abort", B: 0} }, false},
	{"abortdrop", func(t int64) Op { return Op{K: "abort", B: 0, F: true} }, false},
}

func max64(a, b int64) int64 {
	if a > b {
		return a
	}
	return b
}

func c11Programs(depth int) []*Spec {
	var out []*Spec
	var rec func(hist []int)
	emit := func(hist []int) {
		for _, total := range []int64{0, 2} {
			for _, rf := range []string{"none", "auto"} {
				var names []string
				var ops []Op
				for _, h := range hist {
					names = append(names, c11Alphabet[h].name)
					ops = append(ops, c11Alphabet[h].op(total))
				}
				ops = append(ops, Op{K: "cancel"})
				sp := &Spec{Name: fmt.Sprintf("c11-t%d-%s", total, strings.Join(names, ".")), Refresh: rf, Q: -1}
				sp.Bars = []BarSpec{{Total: total}}
				sp.Main = []Op{{K: "add", B: 0}}
				sp.Clients = [][]Op{ops, {{K: "get", B: 0}, {K: "get", B: 0}, {K: "barwait", B: 0}, {K: "get", B: 0}}}
				sp.Late = []Op{{K: "get", B: 0}, {K: "get", B: 0}}
				out = append(out, sp)
			}
		}
	}
	rec = func(hist []int) {
		emit(hist) // including the empty history: a bar nobody touches, ended only by the cancellation
		if len(hist) == depth {
			return
		}
		for i := range c11Alphabet {
			rec(append(append([]int{}, hist...), i))
		}
	}
	rec(nil)
	// two mutator threads racing: an Abort against the update that completes the bar, with an observer; whichever
	// wins, the state an observer has seen must stick
	for _, total := range []int64{0, 2} {
		for _, rf := range []string{"none", "auto"} {
			for ci, comp := range []Op{{K: "incr", B: 0, N: max64(total, 1)}, {K: "settotal", B: 0, N: -1, F: true}, {K: "trigger", B: 0}, {K: "setcur", B: 0, N: max64(total, 1)}} {
				for _, drop := range []bool{false, true} {
					if total == 2 && (comp.K == "settotal" || comp.K == "trigger") {
						continue
					}
					sp := &Spec{Name: fmt.Sprintf("c11-race-t%d-%d-%v", total, ci, drop), Refresh: rf, Q: -1}
					sp.Bars = []BarSpec{{Total: total}, {Total: 9}}
					sp.Main = []Op{{K: "add", B: 0}, {K: "add", B: 1}}
					sp.Clients = [][]Op{{comp}, {{K: "abort", B: 0, F: drop}}, {{K: "get", B: 0}, {K: "get", B: 0}, {K: "get", B: 0}}, {{K: "get", B: 0}, {K: "get", B: 0}}}
					sp.Main2 = []Op{{K: "join"}, {K: "get", B: 0}, {K: "cancel"}}
					sp.Late = []Op{{K: "get", B: 0}}
					out = append(out, sp)
				}
			}
		}
	}
	// a frame drawn after the bar reached its final state fails (the filler returns an error): the container shuts
	// down, the state the bar had reported must stay
	for _, rf := range []string{"manual", "auto"} {
		for ei, end := range [][]Op{{{K: "incr", B: 0, N: 2}}, {{K: "abort", B: 0}}} {
			sp := &Spec{Name: fmt.Sprintf("c11-render-error-after-final-state-%d", ei), Refresh: rf, Q: -1}
			sp.Bars = []BarSpec{{Total: 2, FillErrWhenDone: true}, {Total: 9}}
			sp.Main = []Op{{K: "add", B: 0}, {K: "add", B: 1}}
			ops := []Op{{K: "refresh"}}
			ops = append(ops, end...)
			ops = append(ops, Op{K: "get", B: 0}, Op{K: "refresh"}, Op{K: "get", B: 0}, Op{K: "barwait", B: 0}, Op{K: "get", B: 0})
			if rf == "auto" {
				ops = append(append([]Op{}, end...), Op{K: "get", B: 0}, Op{K: "barwait", B: 0}, Op{K: "get", B: 0})
			}
			sp.Clients = [][]Op{ops, {{K: "get", B: 0}, {K: "get", B: 0}}}
			sp.Late = []Op{{K: "get", B: 0}, {K: "get", B: 0}}
			out = append(out, sp)
		}
	}
	return out
}

func c11Tags(sp *Spec) []string {
	// partition used by the known finding: an Abort is followed (in program order) by an update that reaches the total,
	// or Abort hits a bar whose current already equals its total
	return nil
}

func init() {
	register(&Family{
		Property: "C11",
		Rule: "also: a filler error on a frame drawn after the bar reached its final state (the reported state must stick through the error shutdown); " +
			"all histories up to the depth over {IncrBy 1, IncrBy total, SetCurrent total, SetTotal(-1,true), EnableTriggerComplete, Abort(false), Abort(true)} from totals {0,2}, followed by ctx cancel so every bar ends, in non-refreshing and auto-refresh containers; " +
			"an observer thread reads (Completed, Aborted) twice, waits for the bar and reads again, main reads twice after Wait; every schedule within the deviation bound places the reads, render cycles and the bar goroutine's exit anywhere. " +
			"Oracle: never both; Completed sticky with Aborted false; Aborted sticky with Completed false; after Bar.Wait (same thread) and after Progress.Wait exactly one; the same on the Statistics seen by the filler in successive frames.",
		Items: func(tier string) []Item {
			var items []Item
			depth, bound := 2, 1
			if tier == "thorough" {
				depth, bound = 3, 1
				items = allItems("C11", c11Oracle, []Op{{K: "get", B: 0}, {K: "get", B: 0}}, "incr-abort", "incr-abortdrop", "incr-getters", "cancel")
			}
			for _, sp := range c11Programs(depth) {
				b := bound
				if tier == "thorough" && strings.Count(sp.Name, ".") <= 1 {
					b = 2
				}
				if strings.HasPrefix(sp.Name, "c11-race") && tier == "thorough" {
					b = 2
				}
				items = append(items, specItems("C11", sp, b, []int{mcrt.StratFIFO, mcrt.StratNewest}, nil, c11Oracle)...)
			}
			return items
		},
	})
}
