// Package scen holds the scenario programs and oracles. It is written in
// plain Go against the public API of mpb; mcgen rewrites it together with the
// library so that its goroutines and channels are scheduled by mcrt too.
package scen

import (
	"bytes"
	"fmt"
	"regexp"
	"sort"
	"strconv"
	"strings"

	"mcrt"

	"github.com/VividCortex/ewma"
	"github.com/vbauerster/mpb/v8/decor"
)

// X is the observation record of one execution.
type X struct {
	Writes       []OutWrite
	Calls        []Call
	Decors       []DecorEv
	Fills        []FillEv
	shutNames    []string // shutdown-listening decorators in registration order
	shutCounts   []int    // OnShutdown calls per decorator (fixed storage: see NewX)
	Debug        bytes.Buffer
	Notified     []interface{} // values received from the shutdown notifier
	NotifiedIDs  [][]int
	evNames      []string
	evCounts     []int
	Notes        []string
	sharedWC     [4]decor.WC
	sharedInit   [4]bool
	sharedAvg    ewma.MovingAverage
	WaitStep     int // step at which Progress.Wait returned (0 = did not)
	WritesAtWait int
	ShutAtWait   []int // listener notification counts at the moment Wait returned
	FailWrite    int   // fail the k-th output write (1-based), 0 = never
	FaultStep    int   // step at which the injected fault fired (0 = none)
	FaultText    string
	Stream       string  // pty: everything the terminal received
	CycleBegin   []int   // steps at which the container goroutine took a refresh request
	TermFills    [32]int // per bar: Fill calls that saw a terminal state
	Queued       [32]int // per predecessor: successors queued behind it so far
	Viol         []string
}

// NewX allocates the record with fixed capacities and without maps: callbacks
// running in different library goroutines append to it, which is safe because
// exactly one thread runs at a time, but in the race variant the runtime's
// built-in hooks of map assignment and slice growth would (rightly, by the Go
// memory model) flag the harness itself. Plain stores into preallocated
// storage from this uninstrumented package are invisible to the detector.
func NewX() *X {
	return &X{
		Writes: make([]OutWrite, 0, 512), Calls: make([]Call, 0, 512), Decors: make([]DecorEv, 0, 8192), Fills: make([]FillEv, 0, 4096),
		Notes: make([]string, 0, 512), Viol: make([]string, 0, 16), CycleBegin: make([]int, 0, 1024),
		shutNames: make([]string, 0, 64), shutCounts: make([]int, 0, 64), evNames: make([]string, 0, 32), evCounts: make([]int, 0, 32),
		Notified: make([]interface{}, 0, 4), NotifiedIDs: make([][]int, 0, 4),
	}
}

// RegisterShut declares a shutdown-listening decorator and returns its slot.
func (x *X) RegisterShut(name string) int {
	x.shutNames = append(x.shutNames, name)
	x.shutCounts = append(x.shutCounts, 0)
	return len(x.shutNames) - 1
}

// ShutCountAtWait is the number of notifications the listener had received when Progress.Wait returned.
func (x *X) ShutCountAtWait(name string) int {
	for i, n := range x.shutNames {
		if n == name && i < len(x.ShutAtWait) {
			return x.ShutAtWait[i]
		}
	}
	return 0
}

func (x *X) ShutCount(name string) int {
	for i, n := range x.shutNames {
		if n == name {
			return x.shutCounts[i]
		}
	}
	return 0
}

// Events returns the names of the partition events seen.
func (x *X) EventNames() []string { return x.evNames }

func (x *X) EventCount(name string) int {
	for i, n := range x.evNames {
		if n == name {
			return x.evCounts[i]
		}
	}
	return 0
}

type OutWrite struct {
	Step int
	Data string
}

type Call struct {
	Client int
	Op     string
	Inv    int
	Ret    int // 0 = did not return
	Res    string
}

type DecorEv struct {
	Step      int
	Bar       int
	Side, Ord int
	Need, Got int
	Completed bool
	Aborted   bool
	Cur, Tot  int64
}

type FillEv struct {
	Step      int
	Bar       int
	Cur, Tot  int64
	Refill    int64
	Completed bool
	Aborted   bool
	Avail     int
}

func (x *X) Event(name string) {
	for i, n := range x.evNames {
		if n == name {
			x.evCounts[i]++
			return
		}
	}
	x.evNames = append(x.evNames, name)
	x.evCounts = append(x.evCounts, 1)
}
func (x *X) Note(f string, a ...interface{}) {
	x.Notes = append(x.Notes, fmt.Sprintf(f, a...))
}
func (x *X) Violate(f string, a ...interface{}) {
	x.Viol = append(x.Viol, fmt.Sprintf(f, a...))
}

// Write implements io.Writer: the container's output.
type Recorder struct{ x *X }

func (r Recorder) Write(p []byte) (int, error) {
	k := len(r.x.Writes) + 1
	if r.x.FailWrite != 0 && k >= r.x.FailWrite {
		r.x.Writes = append(r.x.Writes, OutWrite{mcrt.Step(), "!ERR"})
		if r.x.FaultStep == 0 {
			r.x.FaultStep = mcrt.Step()
			r.x.FaultText = "output write failed"
		}
		return 0, fmt.Errorf("output write failed")
	}
	r.x.Writes = append(r.x.Writes, OutWrite{mcrt.Step(), string(p)})
	return len(p), nil
}

type debugW struct{ x *X }

func (d debugW) Write(p []byte) (int, error) { return d.x.Debug.Write(p) }

// call records one client call with invoke/return timestamps.
func (x *X) call(client int, op string, f func() string) {
	i := len(x.Calls)
	x.Calls = append(x.Calls, Call{Client: client, Op: op, Inv: mcrt.Step()})
	res := f()
	x.Calls[i].Ret = mcrt.Step()
	if x.Calls[i].Ret == x.Calls[i].Inv {
		x.Calls[i].Ret++
	}
	x.Calls[i].Res = res
}

// ---------------------------------------------------------------------------
// frames

type Row struct {
	Bar   int
	Ext   int // -1 = the bar's own row
	Cur   int64
	Tot   int64
	Flags string
	Raw   string
}

type Frame struct {
	Step int
	Up   int
	Text []string // lines above the first bar row
	Rows []Row
	Err  bool
}

var (
	reUp  = regexp.MustCompile(`^\x1b\[(\d+)A\x1b\[J`)
	reBar = regexp.MustCompile(`\[b(\d+) (-?\d+)/(-?\d+) ([RCA]+)\]`)
	reExt = regexp.MustCompile(`\[x(\d+)\.(\d+)\]`)
	reDec = regexp.MustCompile(`^d(\d+)[pa]\d`)  // a row whose body was squeezed out still starts with its decorator
	reSGR = regexp.MustCompile(`\x1b\[[0-9;]*m`) // colour sequences added by Meta wrappers
)

func ParseFrame(w OutWrite) Frame {
	f := Frame{Step: w.Step}
	s := w.Data
	if s == "!ERR" {
		f.Err = true
		return f
	}
	if m := reUp.FindStringSubmatch(s); m != nil {
		f.Up, _ = strconv.Atoi(m[1])
		s = s[len(m[0]):]
	}
	lines := strings.SplitAfter(s, "\n")
	if len(lines) > 0 && lines[len(lines)-1] == "" {
		lines = lines[:len(lines)-1]
	}
	seenRow := false
	for _, ln := range lines {
		ln = reSGR.ReplaceAllString(ln, "")
		if m := reBar.FindStringSubmatch(ln); m != nil {
			b, _ := strconv.Atoi(m[1])
			c, _ := strconv.ParseInt(m[2], 10, 64)
			t, _ := strconv.ParseInt(m[3], 10, 64)
			f.Rows = append(f.Rows, Row{Bar: b, Ext: -1, Cur: c, Tot: t, Flags: m[4], Raw: ln})
			seenRow = true
		} else if m := reExt.FindStringSubmatch(ln); m != nil {
			b, _ := strconv.Atoi(m[1])
			k, _ := strconv.Atoi(m[2])
			f.Rows = append(f.Rows, Row{Bar: b, Ext: k, Raw: ln})
			seenRow = true
		} else if m := reDec.FindStringSubmatch(ln); m != nil {
			b, _ := strconv.Atoi(m[1])
			f.Rows = append(f.Rows, Row{Bar: b, Ext: -1, Flags: "?", Raw: ln})
			seenRow = true
		} else if !seenRow {
			f.Text = append(f.Text, ln)
		} else {
			f.Rows = append(f.Rows, Row{Bar: -1, Ext: -1, Raw: ln})
		}
	}
	return f
}

func (x *X) Frames() []Frame {
	fs := make([]Frame, len(x.Writes))
	for i, w := range x.Writes {
		fs[i] = ParseFrame(w)
	}
	return fs
}

// BarIDs returns the ids of the bars that have their own row in f, in order.
func (f Frame) BarIDs() []int {
	var ids []int
	for _, r := range f.Rows {
		if r.Ext == -1 && r.Bar >= 0 {
			ids = append(ids, r.Bar)
		}
	}
	return ids
}

func (f Frame) Row(bar int) *Row {
	for i := range f.Rows {
		if f.Rows[i].Bar == bar && f.Rows[i].Ext == -1 {
			return &f.Rows[i]
		}
	}
	return nil
}

func (f Frame) String() string {
	var parts []string
	if f.Err {
		return "ERR"
	}
	for _, t := range f.Text {
		parts = append(parts, "T:"+strings.TrimSpace(t))
	}
	for _, r := range f.Rows {
		switch {
		case r.Bar < 0:
			parts = append(parts, "?")
		case r.Ext >= 0:
			parts = append(parts, fmt.Sprintf("x%d.%d", r.Bar, r.Ext))
		default:
			parts = append(parts, fmt.Sprintf("b%d:%d/%d%s", r.Bar, r.Cur, r.Tot, r.Flags))
		}
	}
	return fmt.Sprintf("^%d{%s}", f.Up, strings.Join(parts, " "))
}

// Obs is the canonical observation record used to count distinct outcomes.
func (x *X) Obs() string {
	var b strings.Builder
	for _, f := range x.Frames() {
		b.WriteString(f.String())
		b.WriteByte(';')
	}
	b.WriteString("|")
	cs := make([]string, 0, len(x.Calls))
	for _, c := range x.Calls {
		r := c.Res
		if c.Ret == 0 {
			r = "<blocked>"
		}
		cs = append(cs, fmt.Sprintf("%d:%s=%s", c.Client, c.Op, r))
	}
	sort.Strings(cs)
	b.WriteString(strings.Join(cs, ","))
	b.WriteString("|")
	ks := make([]string, 0, len(x.shutNames))
	for i, k := range x.shutNames {
		ks = append(ks, fmt.Sprintf("%s=%d", k, x.shutCounts[i]))
	}
	sort.Strings(ks)
	b.WriteString(strings.Join(ks, ","))
	fmt.Fprintf(&b, "|dbg=%q|n=%d", x.Debug.String(), len(x.Notified))
	return b.String()
}

// LibThread reports whether a thread role belongs to library code.
func LibThread(role string) bool {
	return strings.HasPrefix(role, "mpb:") || strings.HasPrefix(role, "decor:") || strings.HasPrefix(role, "cwriter:") || strings.HasPrefix(role, "ctx.") || strings.HasPrefix(role, "timer.")
}

// CycleStart returns a lower bound for the step at which the render cycle that
// produced frame k began: the last refresh request taken before the frame was
// written, but not earlier than the previous frame's write.
func (x *X) CycleStart(frames []Frame, k int) int {
	lo := 0
	if k > 0 {
		lo = frames[k-1].Step
	}
	best := -1
	for _, s := range x.CycleBegin {
		if s < frames[k].Step && s > best {
			best = s
		}
	}
	if best > lo {
		return best
	}
	return lo
}

// CycleStartOf returns the step at which the render cycle that produced an output write at step began (the latest
// cycle-begin event before it; 0 if none was recorded).
func (x *X) CycleStartOf(step int) int {
	best := 0
	for _, s := range x.CycleBegin {
		if s < step && s > best {
			best = s
		}
	}
	return best
}
