package scen

import (
	"bytes"
	"errors"
	"fmt"
	"io"
	"sort"
	"strings"
	"time"

	"github.com/vbauerster/mpb/v8"
	"github.com/vbauerster/mpb/v8/decor"
	"mcrt"
)

// C19: proxy readers and writers are transparent and account every byte.

var errInjected = errors.New("injected I/O error")

type ioCall struct {
	n   int
	err string
	dur time.Duration
}

// scriptReader is the underlying value: it serves data in scripted chunk sizes, may fail at call k,
// and advances the virtual clock inside each call.
type scriptReader struct {
	data   []byte
	pos    int
	sizes  []int
	errAt  int // 1-based call index that fails (0 = never)
	calls  []ioCall
	closed int
	wtUsed int
}

func (r *scriptReader) Read(p []byte) (int, error) {
	k := len(r.calls)
	d := time.Duration(k+1) * time.Millisecond
	mcrt.Advance(d)
	size := r.sizes[k%len(r.sizes)]
	if size == 0 && k >= 3 && len(r.sizes) == 1 {
		size = 1 // an all-zero script stalls three times, then makes progress (io.Copy never gives up on (0, nil))
	}
	if size > len(p) {
		size = len(p)
	}
	if size > len(r.data)-r.pos {
		size = len(r.data) - r.pos
	}
	n := copy(p, r.data[r.pos:r.pos+size])
	r.pos += n
	var err error
	switch {
	case r.errAt != 0 && k+1 >= r.errAt:
		err = errInjected
	case r.pos >= len(r.data) && n == 0:
		err = io.EOF
	}
	r.calls = append(r.calls, ioCall{n, errStr(err), d})
	return n, err
}

func errStr(err error) string {
	if err == nil {
		return "nil"
	}
	return err.Error()
}

type scriptReadCloser struct{ *scriptReader }

func (r scriptReadCloser) Close() error { r.closed++; return nil }

type scriptReaderWT struct{ *scriptReader }

func (r scriptReaderWT) WriteTo(w io.Writer) (int64, error) {
	r.wtUsed++
	mcrt.Advance(7 * time.Millisecond)
	var total int64
	var err error
	if r.errAt != 0 {
		// delivers half and fails
		n, _ := w.Write(r.data[r.pos : r.pos+(len(r.data)-r.pos)/2])
		total, err = int64(n), errInjected
	} else {
		n, e := w.Write(r.data[r.pos:])
		total, err = int64(n), e
	}
	r.pos += int(total)
	r.calls = append(r.calls, ioCall{int(total), errStr(err), 7 * time.Millisecond})
	return total, err
}

type scriptReadCloserWT struct{ scriptReaderWT }

func (r scriptReadCloserWT) Close() error { r.closed++; return nil }

type ewmaRec struct {
	decor.WC
	samples *[]ioCall
}

func (d ewmaRec) Decor(decor.Statistics) (string, int) { return d.Format("e") }
func (d ewmaRec) EwmaUpdate(n int64, dur time.Duration) {
	*d.samples = append(*d.samples, ioCall{n: int(n), dur: dur})
}

func wrapDepth(d decor.Decorator, depth int) decor.Decorator {
	for i := 0; i < depth; i++ {
		d = userWrap{d}
	}
	if depth > 0 {
		d = decor.OnComplete(d, "done")
	}
	return d
}

func sampleKey(cs []ioCall, withDur bool) string {
	var s []string
	for _, c := range cs {
		if withDur {
			s = append(s, fmt.Sprintf("%d@%v", c.n, c.dur))
		} else {
			s = append(s, fmt.Sprint(c.n))
		}
	}
	sort.Strings(s)
	return strings.Join(s, ",")
}

type c19Cfg struct {
	kind    int // 0 Reader, 1 ReadCloser, 2 Reader+WriterTo, 3 ReadCloser+WriterTo
	length  int
	sizes   []int
	errAt   int
	total   int64 // -1 = unknown (bar created with 0, SetTotal(-1,true) at EOF)
	ewma    int   // 0 none, 1 plain, 2 wrapped two levels, 3 two decorators (plain + wrapped)
	copyDrv bool
	pre     int64 // the bar is advanced by this much before the proxy is used (only with ewma == 0)
}

func (c c19Cfg) id(side string) string {
	return fmt.Sprintf("%s kind=%d len=%d sizes=%v errAt=%d total=%d ewma=%d copy=%v pre=%d", side, c.kind, c.length, c.sizes, c.errAt, c.total, c.ewma, c.copyDrv, c.pre)
}

// second receives the samples of the second decorator when c.ewma == 3
var c19Second []ioCall

func c19Bar(c c19Cfg, samples *[]ioCall) (*mpb.Progress, *mpb.Bar) {
	p := mpb.New(mpb.WithOutput(io.Discard))
	var opts []mpb.BarOption
	c19Second = c19Second[:0]
	if c.ewma > 0 {
		wc := decor.WC{}
		wc.Init()
		depth := 0
		if c.ewma == 2 {
			depth = 2
		}
		ds := []decor.Decorator{wrapDepth(ewmaRec{wc, samples}, depth)}
		if c.ewma == 3 {
			ds = append(ds, wrapDepth(ewmaRec{wc, &c19Second}, 1))
		}
		if c.ewma == 3 {
			// one moving-average decorator on each side of the bar
			opts = append(opts, mpb.PrependDecorators(ds[0]), mpb.AppendDecorators(ds[1]))
		} else {
			opts = append(opts, mpb.AppendDecorators(ds...))
		}
	}
	t := c.total
	if t < 0 {
		t = 0
	}
	bar := p.AddBar(t, opts...)
	if c.pre > 0 {
		bar.IncrInt64(c.pre)
	}
	return p, bar
}

func c19Reader(env *SeqEnv, c c19Cfg) {
	env.Case(c.id("reader"), func() (string, bool, string, string) {
		data := []byte("abcdefghij")[:c.length]
		base := &scriptReader{data: data, sizes: c.sizes, errAt: c.errAt}
		var under io.Reader
		switch c.kind {
		case 0:
			under = base
		case 1:
			under = scriptReadCloser{base}
		case 2:
			under = scriptReaderWT{base}
		case 3:
			under = scriptReadCloserWT{scriptReaderWT{base}}
		}
		var samples []ioCall
		p, bar := c19Bar(c, &samples)
		rc := bar.ProxyReader(under)
		if rc == nil {
			return "nil proxy", true, "nil-proxy", "ProxyReader returned nil for a running bar"
		}
		_, hasWT := rc.(io.WriterTo)
		_, wantWT := under.(io.WriterTo)
		var seen []ioCall
		var got bytes.Buffer
		var finalErr error
		var copied int64
		running := true
		var wantSamples []ioCall
		note := func(n int, dur time.Duration) {
			if running {
				wantSamples = append(wantSamples, ioCall{n: n, dur: dur})
			}
			if bar.Completed() {
				running = false
			}
		}
		if c.copyDrv {
			before := len(base.calls)
			copied, finalErr = io.Copy(&got, rc)
			for _, cl := range base.calls[before:] {
				_ = cl
			}
		} else {
			buf := make([]byte, 4)
			for i := 0; i < 12; i++ {
				k := len(base.calls)
				n, err := rc.Read(buf)
				got.Write(buf[:n])
				seen = append(seen, ioCall{n: n, err: errStr(err)})
				if len(base.calls) > k {
					note(base.calls[k].n, base.calls[k].dur)
				}
				if err != nil {
					finalErr = err
					break
				}
			}
		}
		if c.total < 0 {
			bar.SetTotal(-1, true)
		}
		cerr := rc.Close()
		cur, comp := bar.Current(), bar.Completed()
		bar.Abort(true)
		p.Shutdown()

		delivered := 0
		for _, cl := range base.calls {
			delivered += cl.n
		}
		out := fmt.Sprintf("data=%q calls=%v seen=%v copied=%d err=%s close=%v/%d cur=%d comp=%v wt=%v samples=%s", got.String(), callStr(base.calls), callStr(seen), copied, errStr(finalErr), cerr, base.closed, cur, comp, hasWT, sampleKey(samples, false))
		if hasWT != wantWT {
			return out, true, "fast-path", fmt.Sprintf("proxy offers WriteTo=%v, wrapped value %v", hasWT, wantWT)
		}
		if got.String() != string(data[:delivered]) {
			return out, true, "data", fmt.Sprintf("caller received %q, underlying delivered %q", got.String(), data[:delivered])
		}
		if !c.copyDrv {
			if callStr(seen) != callStr(base.calls) {
				return out, true, "counts-errors", fmt.Sprintf("caller saw %s, underlying returned %s", callStr(seen), callStr(base.calls))
			}
		} else {
			if copied != int64(delivered) {
				return out, true, "copy-count", fmt.Sprintf("io.Copy reported %d bytes, underlying delivered %d", copied, delivered)
			}
			// io.Copy reports whatever the last underlying call reported, except EOF
			wantErr := "nil"
			if n := len(base.calls); n > 0 && base.calls[n-1].err != "EOF" {
				wantErr = base.calls[n-1].err
			}
			if errStr(finalErr) != wantErr {
				return out, true, "copy-error", fmt.Sprintf("io.Copy returned %s, want %s", errStr(finalErr), wantErr)
			}
			if wantWT && base.wtUsed != 1 {
				return out, true, "fast-path-unused", fmt.Sprintf("underlying WriteTo used %d times by io.Copy", base.wtUsed)
			}
		}
		wantClosed := 0
		if c.kind == 1 || c.kind == 3 {
			wantClosed = 1
		}
		if base.closed != wantClosed || cerr != nil {
			return out, true, "close", fmt.Sprintf("Close forwarded %d times (err %v), want %d", base.closed, cerr, wantClosed)
		}
		wantCur := int64(delivered) + c.pre
		switch {
		case c.total < 0:
			// adopted at SetTotal(-1,true)
		case c.total > 0 && wantCur > c.total:
			wantCur = c.total
		}
		if cur != wantCur {
			return out, true, "bar-advance", fmt.Sprintf("bar at %d after %d bytes (total %d)", cur, delivered, c.total)
		}
		if c.ewma == 3 && sampleKey(samples, false) != sampleKey(c19Second, false) {
			return out, true, "ewma-second-decorator", fmt.Sprintf("two moving-average decorators on one bar received different samples: %s vs %s", sampleKey(samples, false), sampleKey(c19Second, false))
		}
		if c.ewma > 0 && !c.copyDrv {
			if sampleKey(samples, false) != sampleKey(wantSamples, false) {
				return out, true, "ewma-samples", fmt.Sprintf("moving-average decorator received n=%s, calls while running n=%s", sampleKey(samples, false), sampleKey(wantSamples, false))
			}
			if !env.Pristine && sampleKey(samples, true) != sampleKey(wantSamples, true) {
				return out, true, "ewma-durations", fmt.Sprintf("moving-average decorator received %s, calls took %s", sampleKey(samples, true), sampleKey(wantSamples, true))
			}
		}
		if c.ewma > 0 && c.copyDrv && wantWT && c.errAt == 0 && c.total != 0 {
			sum := 0
			for _, s := range samples {
				sum += s.n
			}
			if sum != delivered {
				return out, true, "ewma-bytes", fmt.Sprintf("moving-average decorator saw %d bytes of %d", sum, delivered)
			}
		}
		return out, delivered > 0, "", ""
	})
}

func callStr(cs []ioCall) string {
	var s []string
	for _, c := range cs {
		s = append(s, fmt.Sprintf("(%d,%s)", c.n, c.err))
	}
	return strings.Join(s, "")
}

// ---- writer side

type scriptWriter struct {
	buf    bytes.Buffer
	short  int // every call accepts at most len(p)-short bytes (>=0)
	errAt  int
	calls  []ioCall
	closed int
	rfUsed int
}

func (w *scriptWriter) Write(p []byte) (int, error) {
	k := len(w.calls)
	d := time.Duration(k+1) * time.Millisecond
	mcrt.Advance(d)
	n := len(p) - w.short
	if n < 0 {
		n = 0
	}
	var err error
	if w.errAt != 0 && k+1 >= w.errAt {
		n, err = n/2, errInjected
	} else if n < len(p) {
		err = io.ErrShortWrite
	}
	w.buf.Write(p[:n])
	w.calls = append(w.calls, ioCall{n, errStr(err), d})
	return n, err
}

type scriptWriteCloser struct{ *scriptWriter }

func (w scriptWriteCloser) Close() error { w.closed++; return nil }

type scriptWriterRF struct{ *scriptWriter }

func (w scriptWriterRF) ReadFrom(r io.Reader) (int64, error) {
	w.rfUsed++
	mcrt.Advance(9 * time.Millisecond)
	b, err := io.ReadAll(r)
	if w.errAt != 0 {
		b, err = b[:len(b)/2], errInjected
	}
	w.buf.Write(b)
	w.calls = append(w.calls, ioCall{len(b), errStr(err), 9 * time.Millisecond})
	return int64(len(b)), err
}

type scriptWriteCloserRF struct{ scriptWriterRF }

func (w scriptWriteCloserRF) Close() error { w.closed++; return nil }

func c19Writer(env *SeqEnv, c c19Cfg) {
	env.Case(c.id("writer"), func() (string, bool, string, string) {
		data := []byte("abcdefghij")[:c.length]
		short := 0
		if len(c.sizes) > 1 {
			short = 1
		}
		base := &scriptWriter{short: short, errAt: c.errAt}
		var under io.Writer
		switch c.kind {
		case 0:
			under = base
		case 1:
			under = scriptWriteCloser{base}
		case 2:
			under = scriptWriterRF{base}
		case 3:
			under = scriptWriteCloserRF{scriptWriterRF{base}}
		}
		var samples []ioCall
		p, bar := c19Bar(c, &samples)
		wc := bar.ProxyWriter(under)
		if wc == nil {
			return "nil proxy", true, "nil-proxy", "ProxyWriter returned nil for a running bar"
		}
		_, hasRF := wc.(io.ReaderFrom)
		_, wantRF := under.(io.ReaderFrom)
		var seen []ioCall
		var finalErr error
		var copied int64
		if c.copyDrv {
			copied, finalErr = io.Copy(wc, struct{ io.Reader }{bytes.NewReader(data)}) // a source without WriteTo, so ReadFrom is eligible
		} else {
			pos := 0
			for i := 0; pos < len(data) && i < 12; i++ {
				size := c.sizes[i%len(c.sizes)]
				if size > len(data)-pos {
					size = len(data) - pos
				}
				n, err := wc.Write(data[pos : pos+size])
				seen = append(seen, ioCall{n: n, err: errStr(err)})
				pos += n
				if err != nil && err != io.ErrShortWrite {
					finalErr = err
					break
				}
				if size == 0 {
					pos = len(data)
				}
			}
		}
		if c.total < 0 {
			bar.SetTotal(-1, true)
		}
		cerr := wc.Close()
		cur := bar.Current()
		bar.Abort(true)
		p.Shutdown()
		accepted := 0
		for _, cl := range base.calls {
			accepted += cl.n
		}
		out := fmt.Sprintf("written=%q calls=%s seen=%s copied=%d err=%s close=%v/%d cur=%d rf=%v samples=%s", base.buf.String(), callStr(base.calls), callStr(seen), copied, errStr(finalErr), cerr, base.closed, cur, hasRF, sampleKey(samples, false))
		if hasRF != wantRF {
			return out, true, "fast-path", fmt.Sprintf("proxy offers ReadFrom=%v, wrapped value %v", hasRF, wantRF)
		}
		if !c.copyDrv && callStr(seen) != callStr(base.calls) {
			return out, true, "counts-errors", fmt.Sprintf("caller saw %s, underlying returned %s", callStr(seen), callStr(base.calls))
		}
		if c.copyDrv && wantRF {
			if base.rfUsed != 1 {
				return out, true, "fast-path-unused", fmt.Sprintf("underlying ReadFrom used %d times by io.Copy", base.rfUsed)
			}
			if copied != int64(accepted) {
				return out, true, "copy-count", fmt.Sprintf("io.Copy reported %d bytes, underlying accepted %d", copied, accepted)
			}
		}
		wantClosed := 0
		if c.kind == 1 || c.kind == 3 {
			wantClosed = 1
		}
		if base.closed != wantClosed || cerr != nil {
			return out, true, "close", fmt.Sprintf("Close forwarded %d times (err %v), want %d", base.closed, cerr, wantClosed)
		}
		wantCur := int64(accepted) + c.pre
		if c.total > 0 && wantCur > c.total {
			wantCur = c.total
		}
		if cur != wantCur {
			return out, true, "bar-advance", fmt.Sprintf("bar at %d after %d bytes (total %d)", cur, accepted, c.total)
		}
		if c.ewma == 3 && sampleKey(samples, false) != sampleKey(c19Second, false) {
			return out, true, "ewma-second-decorator", fmt.Sprintf("two moving-average decorators on one bar received different samples: %s vs %s", sampleKey(samples, false), sampleKey(c19Second, false))
		}
		if c.ewma > 0 && (c.total < 0 || int64(accepted) < c.total) {
			sum := 0
			for _, s := range samples {
				sum += s.n
			}
			if sum != accepted {
				return out, true, "ewma-bytes", fmt.Sprintf("moving-average decorator saw %d bytes of %d", sum, accepted)
			}
			if !env.Pristine && len(samples) == len(base.calls) && sampleKey(samples, true) != sampleKey(base.calls, true) {
				return out, true, "ewma-durations", fmt.Sprintf("moving-average decorator received %s, calls took %s", sampleKey(samples, true), sampleKey(base.calls, true))
			}
		}
		return out, accepted > 0, "", ""
	})
}

func c19Chunks(tier string) []SeqChunk {
	lengths := []int{0, 1, 3, 6}
	scripts := [][]int{{1}, {2}, {4}, {0, 1, 2}, {4, 1}}
	if tier == "thorough" {
		lengths = []int{0, 1, 2, 3, 4, 5, 6, 7, 8, 9}
		scripts = append(scripts, []int{1, 0, 0, 4}, []int{2, 4, 1}, []int{0}, []int{3}, []int{8}, []int{0, 0, 1}, []int{1, 2, 3}, []int{5, 0, 2})
	}
	var chunks []SeqChunk
	for kind := 0; kind < 4; kind++ {
		for _, side := range []string{"reader", "writer"} {
			kind, side := kind, side
			chunks = append(chunks, SeqChunk{Name: fmt.Sprintf("c19-%s-kind%d", side, kind), Gen: func(env *SeqEnv) {
				for _, l := range lengths {
					for _, sz := range scripts {
						for _, errAt := range []int{0, 1, 2, 3} {
							for _, total := range []int64{int64(l), int64(l) + 2, int64(l) - 1, -1} {
								if total == 0 && l != 0 {
									continue
								}
								for ewma := 0; ewma < 4; ewma++ {
									for _, cp := range []bool{false, true} {
										for _, pre := range []int64{0, 2} {
											if pre > 0 && (ewma != 0 || (total >= 0 && total <= pre)) {
												continue
											}
											c := c19Cfg{kind, l, sz, errAt, total, ewma, cp, pre}
											if side == "reader" {
												c19Reader(env, c)
											} else {
												c19Writer(env, c)
											}
										}
									}
								}
							}
						}
					}
				}
			}})
		}
	}
	// bytes that keep coming after the bar has completed while its goroutine still serves (auto refresh with a distant
	// tick, a second bar still running): the counter stays capped at the total and the bar stays completed
	chunks = append(chunks, SeqChunk{Name: "c19-transfer-continues-after-completion", Gen: func(env *SeqEnv) {
		for _, side := range []string{"reader", "writer"} {
			for _, ewma := range []int{0, 1} {
				for _, size := range []int{1, 2, 3, 5} {
					side, ewma, size := side, ewma, size
					id := fmt.Sprintf("after-completion side=%s ewma=%d chunk=%d", side, ewma, size)
					env.Case(id, func() (string, bool, string, string) {
						p := mpb.New(mpb.WithOutput(io.Discard), mpb.WithAutoRefresh(), mpb.WithRefreshRate(time.Hour))
						var opts []mpb.BarOption
						var samples []ioCall
						if ewma > 0 {
							wc := decor.WC{}
							wc.Init()
							opts = append(opts, mpb.AppendDecorators(ewmaRec{wc, &samples}))
						}
						bar := p.AddBar(4, opts...)
						other := p.AddBar(100)
						data := []byte("abcdefghij")
						var curs []int64
						sum := 0
						bad := ""
						if side == "reader" {
							rc := bar.ProxyReader(bytes.NewReader(data))
							buf := make([]byte, size)
							for {
								n, err := rc.Read(buf)
								sum += n
								c := bar.Current()
								curs = append(curs, c)
								want := int64(sum)
								if want > 4 {
									want = 4
								}
								if c != want && bad == "" {
									bad = fmt.Sprintf("bar at %d after %d bytes (total 4)", c, sum)
								}
								if err != nil {
									break
								}
							}
							rc.Close()
						} else {
							wc := bar.ProxyWriter(io.Discard)
							for off := 0; off < len(data); off += size {
								end := off + size
								if end > len(data) {
									end = len(data)
								}
								n, _ := wc.Write(data[off:end])
								sum += n
								c := bar.Current()
								curs = append(curs, c)
								want := int64(sum)
								if want > 4 {
									want = 4
								}
								if c != want && bad == "" {
									bad = fmt.Sprintf("bar at %d after %d bytes (total 4)", c, sum)
								}
							}
							wc.Close()
						}
						comp := bar.Completed()
						other.Abort(true)
						p.Shutdown()
						out := fmt.Sprintf("curs=%v comp=%v", curs, comp)
						if bad != "" {
							return out, true, "bar-advance", bad
						}
						if !comp {
							return out, true, "completed-lost", fmt.Sprintf("bar of total 4 not completed after %d bytes", sum)
						}
						return out, true, "", ""
					})
				}
			}
		}
	}})
	// the fast paths called directly (io.Copy hides what they return): whatever the wrapped WriteTo / ReadFrom returns,
	// count and error value, comes back unchanged, and the bar advances by that count
	chunks = append(chunks, SeqChunk{Name: "c19-fast-path-direct", Gen: func(env *SeqEnv) {
		errs := []error{nil, io.EOF, io.ErrUnexpectedEOF, io.ErrShortWrite, io.ErrClosedPipe, errInjected}
		for _, side := range []string{"reader", "writer"} {
			for ei, e := range errs {
				for _, part := range []int{0, 3, 6} {
					for _, ewma := range []int{0, 1, 2} {
						for _, closer := range []bool{false, true} {
							side, ei, e, part, ewma, closer := side, ei, e, part, ewma, closer
							id := fmt.Sprintf("fast-path side=%s err#%d delivered=%d ewma=%d closer=%v", side, ei, part, ewma, closer)
							env.Case(id, func() (string, bool, string, string) {
								var samples []ioCall
								p, bar := c19Bar(c19Cfg{total: 20, ewma: ewma}, &samples)
								var n int64
								var err error
								data := []byte("abcdef")
								if side == "reader" {
									var under io.Reader = fixedWT{data[:part], e}
									if closer {
										under = fixedWTCloser{fixedWT{data[:part], e}}
									}
									rc := bar.ProxyReader(under)
									wt, ok := rc.(io.WriterTo)
									if !ok {
										return "", true, "fast-path", "the proxy of a reader with WriteTo offers no WriteTo"
									}
									n, err = wt.WriteTo(io.Discard)
								} else {
									var under io.Writer = fixedRF{part, e}
									if closer {
										under = fixedRFCloser{fixedRF{part, e}}
									}
									wc := bar.ProxyWriter(under)
									rf, ok := wc.(io.ReaderFrom)
									if !ok {
										return "", true, "fast-path", "the proxy of a writer with ReadFrom offers no ReadFrom"
									}
									n, err = rf.ReadFrom(bytes.NewReader(data))
								}
								cur := bar.Current()
								bar.Abort(true)
								p.Shutdown()
								out := fmt.Sprintf("n=%d err=%s cur=%d", n, errStr(err), cur)
								if n != int64(part) || err != e {
									return out, true, "fast-path-result", fmt.Sprintf("the wrapped %s fast path returned (%d, %v), the proxy returned (%d, %v)", side, part, e, n, err)
								}
								if cur != int64(part) {
									return out, true, "bar-advance", fmt.Sprintf("bar at %d after %d bytes through the fast path", cur, part)
								}
								return out, true, "", ""
							})
						}
					}
				}
			}
		}
	}})
	return chunks
}

func init() {
	SeqFamilies["C19"] = c19Chunks
	register(&Family{
		Property: "C19",
		Rule: "also: WriteTo/ReadFrom of the proxy called directly with six error values and three counts, transfers that continue after the bar completed while it is still served; " +
			"payload lengths {0,1,3,6} (thorough 0..9) x read/write size scripts {1,2,4,[0,1,2],[4,1]} (+8 thorough) x injected error at call {none,1,2,3} x wrapped value {plain, +Close, +WriteTo/ReadFrom, both} x total {exact, larger, smaller (cap), unknown then SetTotal(-1,true)} x moving-average decorator {absent, plain, wrapped two levels, two decorators on one bar} x driver {direct calls, io.Copy}; the underlying value advances the virtual clock by a scripted amount inside every call. " +
			"Oracle: bytes, per-call counts and errors identical on both sides; Close forwarded exactly once (only if the wrapped value has it); the proxy's dynamic type offers WriteTo/ReadFrom iff the wrapped value does and io.Copy uses it; Current == bytes transferred (capped at a known total); the moving-average decorator received exactly the multiset of (n, duration) of the calls made while the bar was running. Every case is also executed on the unmodified package (digest without durations).",
		Items: func(tier string) []Item { return seqItems("C19", tier) },
	})
}

// fixedWT / fixedRF: values whose fast path delivers a fixed count and returns a fixed error value.
type fixedWT struct {
	data []byte
	err  error
}

func (f fixedWT) Read(p []byte) (int, error) { return 0, io.EOF }
func (f fixedWT) WriteTo(w io.Writer) (int64, error) {
	mcrt.Advance(3 * time.Millisecond)
	n, _ := w.Write(f.data)
	return int64(n), f.err
}

type fixedWTCloser struct{ fixedWT }

func (fixedWTCloser) Close() error { return nil }

type fixedRF struct {
	n   int
	err error
}

func (f fixedRF) Write(p []byte) (int, error) { return len(p), nil }
func (f fixedRF) ReadFrom(r io.Reader) (int64, error) {
	mcrt.Advance(3 * time.Millisecond)
	buf := make([]byte, f.n)
	n, _ := io.ReadFull(r, buf)
	return int64(n), f.err
}

type fixedRFCloser struct{ fixedRF }

func (fixedRFCloser) Close() error { return nil }
