package scen

import (
	"context"
	"errors"
	"fmt"
	"io"
	"sort"
	"strings"
	"sync"
	"time"

	"github.com/VividCortex/ewma"
	"github.com/mattn/go-runewidth"
	"github.com/vbauerster/mpb/v8"
	"github.com/vbauerster/mpb/v8/decor"
	"mcrt"
)

type DecorSpec struct {
	Sync   bool
	W      int
	Extra  bool
	Right  bool
	Wrap   string // "", "complete", "abort", "both", "meta", "cmeta", "ameta"
	Widths []int  // text width at the k-th call (cyclic); nil = name length
	Listen bool   // implements decor.ShutdownListener
	Depth  int    // user wrapper levels around the decorator
	Ewma   bool   // implements decor.EwmaDecorator
	// Builtin selects a decorator of the library itself instead of the recording probe:
	// "ewmaeta", "ewmaspeed", "percentage", "counters", "elapsed", "avgeta", "avgspeed"
	Builtin string
	// ListenReads: the OnShutdown callback reads its own bar (Current, Completed) and writes a line through the container
	ListenReads bool
	Wide        bool // the text consists of 2-column runes
	// SharedWC > 0: the decorator is built from a WC value that user code has already initialised once and reuses for
	// every decorator of that group (each decorator must still get a synchronisation channel of its own)
	SharedWC int
}

type BarSpec struct {
	Total     int64
	Rm        bool
	NoPop     bool
	Trim      bool
	HasPrio   bool
	Prio      int
	After     int // 1-based index of the bar to queue after; 0 = none
	ExtRows   int
	ExtRev    bool
	ExtErrAt  int
	ExtNoNL   bool // the extender's last line is not newline-terminated
	FillErrAt int
	// FillErrWhenDone: the filler fails on every frame that shows the bar completed or aborted
	FillErrWhenDone bool
	// NilBuilder: the bar is created with Progress.New(total, nil, options...): no filler of its own
	NilBuilder bool
	Pre, App   []DecorSpec
}

type Op struct {
	K string // add incr setcur settotal trigger refill abort prio write refresh get barwait cancel shutdown undelay yield ewma
	B int
	N int64
	F bool
	S string
}

func (o Op) String() string {
	s := o.K
	switch o.K {
	case "add", "trigger", "get", "barwait", "traverse", "traversehold", "avgadj", "proxyr", "proxyw", "isrun", "cur", "comp", "abrt", "id":
		s += fmt.Sprint(o.B)
	case "incr", "setcur", "refill", "ewma", "ewmaset":
		s += fmt.Sprintf("%d(%d)", o.B, o.N)
	case "setprio":
		s += fmt.Sprintf("%d(%d)", o.B, o.N)
	case "settotal", "prio":
		s += fmt.Sprintf("%d(%d,%v)", o.B, o.N, o.F)
	case "abort":
		s += fmt.Sprintf("%d(%v)", o.B, o.F)
	case "write", "writebuf":
		s += fmt.Sprintf("(%q)", o.S)
	}
	return s
}

type Spec struct {
	Name      string
	Refresh   string // auto manual none
	Q         int    // queue length; <0 = library default
	Pop       bool
	Width     int
	Notifier  bool
	Delay     bool
	FailWrite int
	AutoOpt   bool // with Refresh "manual": WithAutoRefresh() is passed as well (manual refresh wins)
	// UWG: the clients' WaitGroup is handed to the container with WithWaitGroup (Progress.Wait then joins the clients
	// as well); NotifyByClient: the shutdown notifier's value is received by a client (op "recvnotify"), not by main
	UWG            bool
	NotifyByClient bool
	// ReuseDecorSlice: decorators of every bar are passed as `scratch...` from one slice the program reuses for each bar
	ReuseDecorSlice bool
	// SharedExtender: one BarExtender option value, created once, is passed to every bar that has extender rows
	SharedExtender bool
	// DebugNil: WithDebugOutput(nil) is passed (documented as "discard")
	DebugNil bool
	Bars     []BarSpec
	Main     []Op
	Clients  [][]Op
	Main2    []Op // by main after the clients were started
	Late     []Op // by main after Wait returned
	NoWait   bool
	Pty      bool // output is the slave end of a pseudo terminal of TermW x TermH
	TermW    int
	TermH    int
}

func (sp *Spec) String() string {
	var b strings.Builder
	fmt.Fprintf(&b, "%s{refresh=%s q=%d", sp.Name, sp.Refresh, sp.Q)
	if sp.Pop {
		b.WriteString(" pop")
	}
	if sp.Notifier {
		b.WriteString(" notifier")
	}
	if sp.Delay {
		b.WriteString(" delay")
	}
	if sp.Pty {
		fmt.Fprintf(&b, " pty=%dx%d", sp.TermW, sp.TermH)
	}
	if sp.Width > 0 {
		fmt.Fprintf(&b, " width=%d", sp.Width)
	}
	if sp.AutoOpt {
		b.WriteString(" +autorefresh-option")
	}
	if sp.UWG {
		b.WriteString(" user-waitgroup")
	}
	if sp.DebugNil {
		b.WriteString(" debug-output=nil")
	}
	if sp.ReuseDecorSlice {
		b.WriteString(" reused-decorator-slice")
	}
	if sp.FailWrite > 0 {
		fmt.Fprintf(&b, " failwrite=%d", sp.FailWrite)
	}
	for i, bs := range sp.Bars {
		fmt.Fprintf(&b, " b%d(t=%d", i, bs.Total)
		if bs.Rm {
			b.WriteString(",rm")
		}
		if bs.NoPop {
			b.WriteString(",nopop")
		}
		if bs.HasPrio {
			fmt.Fprintf(&b, ",prio=%d", bs.Prio)
		}
		if bs.After > 0 {
			fmt.Fprintf(&b, ",after=b%d", bs.After-1)
		}
		if bs.NilBuilder {
			b.WriteString(",nil-builder")
		}
		if bs.ExtRows > 0 {
			fmt.Fprintf(&b, ",ext=%d/%v", bs.ExtRows, bs.ExtRev)
		}
		if bs.ExtNoNL {
			b.WriteString(",ext-unterminated")
		}
		if bs.FillErrAt > 0 {
			fmt.Fprintf(&b, ",fillerr@%d", bs.FillErrAt)
		}
		if bs.FillErrWhenDone {
			b.WriteString(",fillerr-when-done")
		}
		if bs.ExtErrAt > 0 {
			fmt.Fprintf(&b, ",exterr@%d", bs.ExtErrAt)
		}
		for _, d := range bs.Pre {
			fmt.Fprintf(&b, ",P%s", d.short())
		}
		for _, d := range bs.App {
			fmt.Fprintf(&b, ",A%s", d.short())
		}
		b.WriteString(")")
	}
	pr := func(tag string, ops []Op) {
		if len(ops) == 0 {
			return
		}
		fmt.Fprintf(&b, " %s[", tag)
		for i, o := range ops {
			if i > 0 {
				b.WriteString(" ")
			}
			b.WriteString(o.String())
		}
		b.WriteString("]")
	}
	pr("main", sp.Main)
	for i, c := range sp.Clients {
		pr(fmt.Sprintf("c%d", i+1), c)
	}
	pr("main2", sp.Main2)
	pr("late", sp.Late)
	b.WriteString("}")
	return b.String()
}

func (d DecorSpec) short() string {
	s := ""
	if d.Sync {
		s += "s"
	} else {
		s += "p"
	}
	if d.W > 0 {
		s += fmt.Sprintf("w%d", d.W)
	}
	if d.Extra {
		s += "x"
	}
	if d.Wrap != "" {
		s += ":" + d.Wrap
	}
	if d.Listen {
		s += fmt.Sprintf(":L%d", d.Depth)
	}
	if d.Ewma {
		s += ":E"
	}
	if d.Builtin != "" {
		s += ":" + d.Builtin
	}
	if d.ListenReads {
		s += ":reads"
	}
	if d.Wide {
		s += ":wide"
	}
	if len(d.Widths) > 0 {
		s += fmt.Sprint(d.Widths)
	}
	return s
}

// ---------------------------------------------------------------------------

type probeDecor struct {
	decor.WC
	x      *X
	bar    int
	side   int
	ord    int
	name   string
	widths []int
	calls  int
	last   decor.Statistics
	slot   int
	onShut func() // extra work done inside OnShutdown
	wide   bool
}

func (d *probeDecor) Decor(st decor.Statistics) (string, int) {
	text := d.name
	if len(d.widths) > 0 {
		n := d.widths[d.calls%len(d.widths)]
		for len(text) < n {
			text += "x"
		}
		text = text[:n]
	}
	if d.wide {
		// n display columns made of 2-column runes (plus one ASCII letter when n is odd)
		n := len(text)
		text = strings.Repeat("界", n/2)
		if n%2 == 1 {
			text += "x"
		}
	}
	d.calls++
	d.last = st
	return d.Format(text)
}

// Format shadows WC.Format so that messages substituted by OnComplete/OnAbort
// wrappers are recorded too.
func (d *probeDecor) Format(s string) (string, int) {
	need := runewidth.StringWidth(s)
	if d.WC.W > need {
		need = d.WC.W
	} else if d.WC.C&decor.DextraSpace != 0 {
		need++
	}
	out, w := d.WC.Format(s)
	if dw := runewidth.StringWidth(out); dw != w {
		w = -dw // the returned width must be the display width of the returned string (negative = mismatch marker)
	}
	d.x.Decors = append(d.x.Decors, DecorEv{Step: mcrt.Step(), Bar: d.bar, Side: d.side, Ord: d.ord, Need: need, Got: w,
		Completed: d.last.Completed, Aborted: d.last.Aborted, Cur: d.last.Current, Tot: d.last.Total})
	return out, w
}

type listenDecor struct{ *probeDecor }

func (d listenDecor) OnShutdown() {
	d.x.shutCounts[d.slot]++
	if d.onShut != nil {
		d.onShut()
	}
}

type ewmaDecor struct{ *probeDecor }

func (d ewmaDecor) EwmaUpdate(n int64, dur time.Duration) {
	d.x.Note("ewma %s n=%d dur=%v", d.name, n, dur)
}

type listenEwmaDecor struct{ *probeDecor }

func (d listenEwmaDecor) OnShutdown() { d.x.shutCounts[d.slot]++ }
func (d listenEwmaDecor) EwmaUpdate(n int64, dur time.Duration) {
	d.x.Note("ewma %s n=%d dur=%v", d.name, n, dur)
}

type userWrap struct{ decor.Decorator }

func (w userWrap) Unwrap() decor.Decorator { return w.Decorator }

func (x *X) buildDecor(bar, side, ord int, ds DecorSpec) decor.Decorator {
	return x.buildDecorR(nil, bar, side, ord, ds)
}

func (x *X) buildDecorR(r *runner, bar, side, ord int, ds DecorSpec) decor.Decorator {
	if ds.Builtin != "" {
		wc := decor.WC{W: ds.W}
		if ds.Sync {
			wc.C |= decor.DSyncWidth
		}
		var d decor.Decorator
		switch ds.Builtin {
		case "ewmaeta":
			d = decor.EwmaETA(decor.ET_STYLE_GO, 30, wc)
		case "ewmaspeed":
			d = decor.EwmaSpeed(decor.SizeB1024(0), "% .1f", 30, wc)
		case "percentage":
			d = decor.Percentage(wc)
		case "counters":
			d = decor.CountersNoUnit("%d/%d", wc)
		case "counterskib":
			d = decor.CountersKibiByte("% .1f / % .1f", wc)
		case "counterskb":
			d = decor.CountersKiloByte("%.1f/%.1f", wc)
		case "elapsed":
			d = decor.Elapsed(decor.ET_STYLE_GO, wc)
		case "avgeta":
			d = decor.AverageETA(decor.ET_STYLE_GO, wc)
		case "avgspeed":
			d = decor.AverageSpeed(0, "%.1f", wc)
		case "sharedavg-eta":
			// every decorator of this kind in the program uses one average, wrapped for concurrent use
			if x.sharedAvg == nil {
				x.sharedAvg = decor.NewThreadSafeMovingAverage(ewma.NewMovingAverage())
			}
			d = decor.MovingAverageETA(decor.ET_STYLE_GO, x.sharedAvg, nil, wc)
		default:
			d = decor.Name(ds.Builtin, wc)
		}
		for i := 0; i < ds.Depth; i++ {
			d = userWrap{d}
		}
		if ds.Wrap == "complete" {
			d = decor.OnComplete(d, "done")
		}
		return d
	}
	wc := decor.WC{W: ds.W}
	if ds.Sync {
		wc.C |= decor.DSyncWidth
	}
	if ds.Extra {
		wc.C |= decor.DextraSpace
	}
	if ds.Right {
		wc.C |= decor.DindentRight
	}
	pd := &probeDecor{x: x, bar: bar, side: side, ord: ord, widths: ds.Widths, wide: ds.Wide}
	if ds.ListenReads && r != nil {
		pd.onShut = func() {
			// a listener that looks at its own bar and logs through the container
			if b := r.bars[bar]; b != nil {
				_ = b.Current()
				_ = b.Completed()
			}
			r.p.Write([]byte(fmt.Sprintf("bar %d is down\n", bar)))
		}
	}
	pd.name = fmt.Sprintf("d%d%c%d", bar, "pa"[side], ord)
	if ds.SharedWC > 0 && ds.SharedWC < len(x.sharedWC) {
		if !x.sharedInit[ds.SharedWC] {
			x.sharedWC[ds.SharedWC] = wc
			x.sharedWC[ds.SharedWC].Init()
			x.sharedInit[ds.SharedWC] = true
		}
		wc = x.sharedWC[ds.SharedWC]
	}
	pd.WC = wc
	pd.WC.Init()
	var d decor.Decorator = pd
	if ds.Listen {
		pd.slot = x.RegisterShut(pd.name)
	}
	switch {
	case ds.Listen && ds.Ewma:
		d = listenEwmaDecor{pd}
	case ds.Listen:
		d = listenDecor{pd}
	case ds.Ewma:
		d = ewmaDecor{pd}
	}
	for i := 0; i < ds.Depth; i++ {
		d = userWrap{d}
	}
	id := func(s string) string { return s }
	switch ds.Wrap {
	case "complete":
		d = decor.OnComplete(d, "done")
	case "abort":
		d = decor.OnAbort(d, "abrt!")
	case "both":
		d = decor.OnAbort(decor.OnComplete(d, "done"), "abrt!")
	case "meta":
		d = decor.Meta(d, id)
	case "cmeta":
		d = decor.OnCompleteMeta(decor.OnComplete(d, "done"), id)
	case "ccolor":
		d = decor.OnCompleteMeta(d, func(s string) string { return "\x1b[32m" + s + "\x1b[0m" })
	case "ameta":
		d = decor.OnAbortMeta(decor.OnAbort(d, "abrt!"), id)
	}
	return d
}

type runner struct {
	sp      *Spec
	x       *X
	p       *mpb.Progress
	bars    []*mpb.Bar
	mrc     chan interface{}
	delay   chan struct{}
	notify  chan interface{}
	cancel  func()
	stop    chan struct{} // closed when refreshing can no longer be consumed
	stopO   sync.Once
	line    int
	wg      *sync.WaitGroup
	scratch [512]byte
	pty     *Pty
	// user-side values deliberately reused between bars
	hold         chan struct{}
	holdO        sync.Once
	sharedExt    mpb.BarOption
	decorScratch []decor.Decorator
}

var errFill = errors.New("filler failed")
var errExt = errors.New("extender failed")

func (r *runner) barOptions(i int) (mpb.BarFiller, []mpb.BarOption) {
	bs := r.sp.Bars[i]
	x := r.x
	nfill := 0
	filler := mpb.BarFillerFunc(func(w io.Writer, st decor.Statistics) error {
		nfill++
		x.Fills = append(x.Fills, FillEv{Step: mcrt.Step(), Bar: i, Cur: st.Current, Tot: st.Total, Refill: st.Refill,
			Completed: st.Completed, Aborted: st.Aborted, Avail: st.AvailableWidth})
		if st.Completed || st.Aborted {
			x.TermFills[i]++
		}
		if (bs.FillErrAt != 0 && nfill >= bs.FillErrAt) || (bs.FillErrWhenDone && (st.Completed || st.Aborted)) {
			if x.FaultStep == 0 {
				x.FaultStep = mcrt.Step()
				x.FaultText = errFill.Error()
			}
			return errFill
		}
		flags := ""
		if st.Completed {
			flags += "C"
		}
		if st.Aborted {
			flags += "A"
		}
		if flags == "" {
			flags = "R"
		}
		marker := fmt.Sprintf("[b%d %d/%d %s]", st.ID, st.Current, st.Total, flags)
		if len(marker) > st.AvailableWidth {
			return nil // a filler must stay within the width left for it (decorators may have used it all)
		}
		_, err := io.WriteString(w, marker)
		return err
	})
	opts := []mpb.BarOption{mpb.BarID(i)}
	if bs.Rm {
		opts = append(opts, mpb.BarRemoveOnComplete())
	}
	if bs.NoPop {
		opts = append(opts, mpb.BarNoPop())
	}
	if bs.Trim {
		opts = append(opts, mpb.BarFillerTrim())
	}
	if bs.HasPrio {
		opts = append(opts, mpb.BarPriority(bs.Prio))
	}
	if bs.After > 0 {
		opts = append(opts, mpb.BarQueueAfter(r.bars[bs.After-1]))
		pred := bs.After - 1
		// a filler middleware runs inside the container goroutine while it executes the Add request, so it
		// sees exactly whether the predecessor's final frame has already been flushed at that moment
		opts = append(opts, mpb.BarFillerMiddleware(func(base mpb.BarFiller) mpb.BarFiller {
			if x.TermFills[pred] >= 2 {
				x.Event("queue:late-successor")
			}
			x.Queued[pred]++
			if x.Queued[pred] > 1 {
				x.Event("queue:two-successors")
			}
			return base
		}))
	}
	if r.sp.SharedExtender && bs.ExtRows > 0 {
		if r.sharedExt == nil {
			rows := bs.ExtRows
			r.sharedExt = mpb.BarExtender(mpb.BarFillerFunc(func(w io.Writer, st decor.Statistics) error {
				for k := 0; k < rows; k++ {
					fmt.Fprintf(w, "[x%d.%d]\n", st.ID, k)
				}
				return nil
			}), bs.ExtRev)
		}
		opts = append(opts, r.sharedExt)
	} else if bs.ExtRows > 0 || bs.ExtErrAt > 0 {
		next := 0
		opts = append(opts, mpb.BarExtender(mpb.BarFillerFunc(func(w io.Writer, st decor.Statistics) error {
			next++
			if bs.ExtErrAt != 0 && next >= bs.ExtErrAt {
				if x.FaultStep == 0 {
					x.FaultStep = mcrt.Step()
					x.FaultText = errExt.Error()
				}
				return errExt
			}
			for k := 0; k < bs.ExtRows; k++ {
				fmt.Fprintf(w, "[x%d.%d]\n", i, k)
			}
			if bs.ExtNoNL {
				fmt.Fprintf(w, "[x%d.%d]", i, bs.ExtRows) // an unterminated tail: not a line
			}
			return nil
		}), bs.ExtRev))
	}
	var pre, app []decor.Decorator
	for k, ds := range bs.Pre {
		pre = append(pre, x.buildDecorR(r, i, 0, k, ds))
	}
	for k, ds := range bs.App {
		app = append(app, x.buildDecorR(r, i, 1, k, ds))
	}
	if r.sp.ReuseDecorSlice {
		// the program builds each bar's decorator lists in one scratch slice that it reuses for the next bar
		r.decorScratch = append(r.decorScratch[:0], pre...)
		if len(pre) > 0 {
			opts = append(opts, mpb.PrependDecorators(r.decorScratch[:len(pre)]...))
		}
		if len(app) > 0 {
			tail := append(r.decorScratch[len(pre):len(pre)], app...)
			opts = append(opts, mpb.AppendDecorators(tail...))
		}
		return filler, opts
	}
	if len(pre) > 0 {
		opts = append(opts, mpb.PrependDecorators(pre...))
	}
	if len(app) > 0 {
		opts = append(opts, mpb.AppendDecorators(app...))
	}
	return filler, opts
}

func (r *runner) stopRefresh() { r.stopO.Do(func() { close(r.stop) }) }

func (r *runner) do(client int, op Op) {
	x := r.x
	var bar *mpb.Bar
	switch op.K {
	case "add", "write", "writebuf", "refresh", "cancel", "shutdown", "undelay", "yield", "sleep", "recvnotify", "release", "pwait", "join", "closepty":
	default:
		if op.B < 0 || op.B >= len(r.bars) || r.bars[op.B] == nil {
			x.Calls = append(x.Calls, Call{Client: client, Op: op.String(), Inv: mcrt.Step(), Ret: mcrt.Step() + 1, Res: "skipped"})
			return
		}
		bar = r.bars[op.B]
	}
	x.call(client, op.String(), func() string {
		switch op.K {
		case "add":
			filler, opts := r.barOptions(op.B)
			if r.sp.Bars[op.B].NilBuilder {
				// New panics where Add returns an error: only used by programs that add before any shutdown
				r.bars[op.B] = r.p.New(r.sp.Bars[op.B].Total, nil, opts...)
				return "ok"
			}
			b, err := r.p.Add(r.sp.Bars[op.B].Total, filler, opts...)
			if err != nil {
				if err == mpb.ErrDone {
					return "ErrDone"
				}
				return "err:" + err.Error()
			}
			r.bars[op.B] = b
			return "ok"
		case "incr":
			bar.IncrInt64(op.N)
		case "ewma":
			bar.EwmaIncrInt64(op.N, time.Millisecond)
		case "ewmaset":
			bar.EwmaSetCurrent(op.N, time.Millisecond)
		case "setcur":
			bar.SetCurrent(op.N)
		case "settotal":
			bar.SetTotal(op.N, op.F)
		case "trigger":
			bar.EnableTriggerComplete()
		case "refill":
			bar.SetRefill(op.N)
		case "abort":
			bar.Abort(op.F)
		case "prio":
			r.p.UpdateBarPriority(bar, int(op.N), op.F)
		case "setprio":
			bar.SetPriority(int(op.N))
		case "write":
			n, err := r.p.Write([]byte(op.S))
			if err != nil {
				if err == mpb.ErrDone {
					return fmt.Sprintf("%d,ErrDone", n)
				}
				return fmt.Sprintf("%d,err:%v", n, err)
			}
			return fmt.Sprintf("%d,nil", n)
		case "writebuf":
			// the caller reuses one scratch buffer for every line, as a logger does
			n := copy(r.scratch[:], op.S)
			wn, err := r.p.Write(r.scratch[:n])
			if err != nil {
				if err == mpb.ErrDone {
					return fmt.Sprintf("%d,ErrDone", wn)
				}
				return fmt.Sprintf("%d,err:%v", wn, err)
			}
			return fmt.Sprintf("%d,nil", wn)
		case "refresh":
			select {
			case r.mrc <- time.Now():
				return "sent"
			case <-r.stop:
				return "stopped"
			}
		case "get":
			return fmt.Sprintf("id=%d cur=%d comp=%v abort=%v run=%v", bar.ID(), bar.Current(), bar.Completed(), bar.Aborted(), bar.IsRunning())
		case "barwait":
			bar.Wait()
		case "cancel":
			r.stopRefresh()
			r.cancel()
		case "shutdown":
			r.stopRefresh()
			r.p.Shutdown()
		case "undelay":
			close(r.delay)
		case "traversehold":
			// the callback runs on the bar's goroutine and keeps it busy until a "release"
			first := true
			bar.TraverseDecorators(func(decor.Decorator) {
				if first {
					first = false
					<-r.hold
				}
			})
		case "release":
			r.holdO.Do(func() { close(r.hold) })
		case "recvnotify":
			v := <-r.notify
			x.Notified = append(x.Notified, v)
		case "sleep":
			time.Sleep(time.Duration(op.N) * time.Millisecond)
		case "yield":
			mcrt.Yield()
		case "join":
			r.wg.Wait() // all client threads have finished their operations
		case "closepty":
			// the terminal goes away: the next size query (and write) fails
			if r.pty != nil {
				if x.FaultStep == 0 {
					x.FaultStep = mcrt.Step()
					x.FaultText = "*"
				}
				r.pty.Slave.Close()
			}
		case "traverse":
			n := 0
			bar.TraverseDecorators(func(decor.Decorator) { n++ })
			return fmt.Sprint(n)
		case "avgadj":
			bar.DecoratorAverageAdjust(time.Unix(0, 0))
		case "proxyr":
			rc := bar.ProxyReader(strings.NewReader("abc"))
			if rc == nil {
				return "nil"
			}
			b, err := io.ReadAll(rc)
			rc.Close()
			return fmt.Sprintf("%q,%v", b, err)
		case "proxyw":
			wc := bar.ProxyWriter(io.Discard)
			if wc == nil {
				return "nil"
			}
			n, err := wc.Write([]byte("ab"))
			wc.Close()
			return fmt.Sprintf("%d,%v", n, err)
		case "isrun":
			return fmt.Sprint(bar.IsRunning())
		case "cur":
			return fmt.Sprint(bar.Current())
		case "comp":
			return fmt.Sprint(bar.Completed())
		case "abrt":
			return fmt.Sprint(bar.Aborted())
		case "id":
			return fmt.Sprint(bar.ID())
		}
		return ""
	})
}

// Run executes the program as the main thread of an mcrt execution.
func (sp *Spec) Run(x *X) {
	r := &runner{sp: sp, x: x, bars: make([]*mpb.Bar, len(sp.Bars)), stop: make(chan struct{}), hold: make(chan struct{})}
	x.FailWrite = sp.FailWrite
	ctx, cancel := context.WithCancel(context.Background())
	r.cancel = cancel
	opts := []mpb.ContainerOption{mpb.WithOutput(Recorder{x}), mpb.WithDebugOutput(debugW{x})}
	if sp.DebugNil {
		opts[1] = mpb.WithDebugOutput(nil)
	}
	var pty *Pty
	if sp.Pty {
		var err error
		pty, err = OpenPty(sp.TermW, sp.TermH)
		if err != nil {
			x.Event("pty-unavailable")
			x.Note("pty: %v", err)
			return
		}
		opts[0] = mpb.WithOutput(pty.Slave)
		r.pty = pty
	}
	switch sp.Refresh {
	case "auto":
		opts = append(opts, mpb.WithAutoRefresh(), mpb.WithRefreshRate(100*time.Millisecond))
	case "manual":
		r.mrc = make(chan interface{})
		if sp.AutoOpt {
			opts = append(opts, mpb.WithAutoRefresh())
		}
		opts = append(opts, mpb.WithManualRefresh(r.mrc))
	}
	if sp.Q >= 0 {
		opts = append(opts, mpb.WithQueueLen(sp.Q))
	}
	if sp.Pop {
		opts = append(opts, mpb.PopCompletedMode())
	}
	if sp.Width > 0 {
		opts = append(opts, mpb.WithWidth(sp.Width))
	}
	if sp.Notifier {
		r.notify = make(chan interface{})
		opts = append(opts, mpb.WithShutdownNotifier(r.notify))
	}
	if sp.Delay {
		r.delay = make(chan struct{})
		opts = append(opts, mpb.WithRenderDelay(r.delay))
	}
	var wg sync.WaitGroup
	r.wg = &wg
	if sp.UWG {
		opts = append(opts, mpb.WithWaitGroup(&wg))
	}
	r.p = mpb.NewWithContext(ctx, opts...)
	for _, op := range sp.Main {
		r.do(0, op)
	}
	for ci, ops := range sp.Clients {
		ci, ops := ci, ops
		wg.Add(1)
		go func() {
			defer wg.Done()
			for _, op := range ops {
				r.do(ci+1, op)
			}
		}()
	}
	for _, op := range sp.Main2 {
		r.do(0, op)
	}
	if !sp.NoWait {
		x.call(0, "pwait", func() string { r.p.Wait(); return "" })
		x.WaitStep = mcrt.Step()
		x.WritesAtWait = len(x.Writes)
		x.ShutAtWait = make([]int, len(x.shutCounts))
		for i, c := range x.shutCounts {
			x.ShutAtWait[i] = c
		}
		r.stopRefresh()
	}
	wg.Wait()
	if sp.Notifier && !sp.NoWait && !sp.NotifyByClient {
		v := <-r.notify
		x.Notified = append(x.Notified, v)
		if bars, ok := v.([]*mpb.Bar); ok {
			ids := []int{}
			for _, b := range bars {
				ids = append(ids, b.ID())
			}
			sort.Ints(ids)
			x.NotifiedIDs = append(x.NotifiedIDs, ids)
		}
	}
	for _, op := range sp.Late {
		r.do(0, op)
	}
	for _, b := range mcrt.Quiesce() {
		if LibThread(b.Role) {
			x.Note("alive: %s %s in %s %v", b.Role, b.Op, b.Func, b.Chans)
			x.Event("leak")
		}
	}
	r.cancel()
	if pty != nil {
		x.Stream = pty.Finish()
	}
}
