package scen

import (
	"fmt"
	"math"
	"strings"

	"mcrt"
)

// C06: bars are laid out by priority, and priority changes take effect as documented.

type prioChange struct {
	inv, ret int
	val      int
	lazy     bool
}

func c06Oracle(sp *Spec, x *X, res *mcrt.Result) (string, string) {
	if x.WaitStep == 0 {
		return "wait-not-returned", "Progress.Wait did not return"
	}
	frames := x.Frames()
	// reference: initial priority = explicit option or creation order; changes from the call records
	initial := map[int]int{}
	created := 0
	changes := map[int][]prioChange{}
	for _, c := range x.Calls {
		var b, v int
		var lazy bool
		switch {
		case strings.HasPrefix(c.Op, "add") && c.Res == "ok":
			fmt.Sscanf(c.Op, "add%d", &b)
			if sp.Bars[b].HasPrio {
				initial[b] = sp.Bars[b].Prio
			} else {
				initial[b] = created
			}
			if a := sp.Bars[b].After; a > 0 {
				// a queued bar takes its predecessor's place: whatever priority it had of its own is replaced
				initial[b] = initial[a-1]
			}
			created++
		case strings.HasPrefix(c.Op, "prio") && c.Res != "skipped":
			fmt.Sscanf(c.Op, "prio%d(%d,%t)", &b, &v, &lazy)
			changes[b] = append(changes[b], prioChange{c.Inv, c.Ret, v, lazy})
		case strings.HasPrefix(c.Op, "setprio") && c.Res != "skipped":
			fmt.Sscanf(c.Op, "setprio%d(%d)", &b, &v)
			if sp.Bars[b].After > 0 {
				continue // (the programs change a queued bar's priority only while it is still waiting: no effect)
			}
			changes[b] = append(changes[b], prioChange{c.Inv, c.Ret, v, false})
		}
	}
	begin := func(k int) int { return x.CycleStart(frames, k) }
	term := map[int]int{} // terminal frames seen so far per bar
	for fi, f := range frames {
		if f.Err {
			continue
		}
		lo := begin(fi)
		hi := f.Step
		unspecified := false
		lows, highs := map[int]int{}, map[int]int{}
		ids := f.BarIDs()
		for _, b := range ids {
			lo_, hi_ := initial[b], initial[b]
			for _, ch := range changes[b] {
				switch {
				case ch.inv > hi: // not yet issued
				case ch.lazy:
					// definite only from the second frame whose cycle began after the call returned
					n := 0
					for k := 0; k <= fi; k++ {
						if begin(k) > ch.ret {
							n++
						}
					}
					if n >= 2 {
						lo_, hi_ = ch.val, ch.val
					} else {
						unspecified = true
					}
				case ch.ret < lo: // returned before this cycle began
					lo_, hi_ = ch.val, ch.val
				default: // overlaps this cycle: either value
					if ch.val < lo_ {
						lo_ = ch.val
					}
					if ch.val > hi_ {
						hi_ = ch.val
					}
				}
			}
			lows[b], highs[b] = lo_, hi_
		}
		for _, b := range ids {
			if r := f.Row(b); r != nil && r.Flags != "R" {
				term[b]++
			}
		}
		if unspecified {
			continue
		}
		if sp.Pop {
			// a bar in its third terminal frame has risen: nothing running above it
			running := -1
			for _, b := range ids {
				r := f.Row(b)
				if r.Flags == "R" {
					running = b
				} else if term[b] >= 3 && running >= 0 && !sp.Bars[b].NoPop {
					return "pop-order", fmt.Sprintf("frame %d: finished bar %d (terminal frame %d) is below running bar %d: %s", fi, b, term[b], running, f)
				}
			}
			continue
		}
		for i := 0; i+1 < len(ids); i++ {
			a, b := ids[i], ids[i+1]
			if lows[a] > highs[b] {
				return "priority-order", fmt.Sprintf("frame %d: bar %d (priority %d) is above bar %d (priority %d): %s", fi, a, lows[a], b, highs[b], f)
			}
		}
	}
	return "", ""
}

func c06Programs(tier string) []*Spec {
	var out []*Spec
	type pat struct {
		name string
		prio []int // -1 = default
	}
	pats := []pat{{"default", []int{-1, -1, -1}}, {"desc", []int{2, 1, -1}}, {"ties", []int{1, 1, 0}}, {"mid", []int{-1, 0, -1}}}
	// (explicit priorities at the ends of the int range are exercised by c06-extreme below)
	type chg struct {
		b, v int
		lazy bool
	}
	var single []chg
	for b := 0; b < 3; b++ {
		for _, v := range []int{0, 3} {
			for _, lazy := range []bool{false, true} {
				single = append(single, chg{b, v, lazy})
			}
		}
	}
	var seqs [][]chg
	for _, c := range single {
		seqs = append(seqs, []chg{c})
	}
	if tier == "thorough" {
		for _, c1 := range single {
			for _, c2 := range single {
				if c1.b != c2.b || c1.v != c2.v {
					seqs = append(seqs, []chg{c1, c2})
				}
			}
		}
	} else {
		seqs = append(seqs, []chg{{0, 3, false}, {2, 0, false}}, []chg{{0, 3, true}, {1, 3, false}}, []chg{{2, 0, true}, {2, 3, true}})
	}
	for _, p := range pats {
		for si, seq := range seqs {
			for _, between := range []bool{false, true} {
				if len(seq) == 1 && between {
					continue
				}
				sp := &Spec{Name: fmt.Sprintf("c06-%s-s%d-%v", p.name, si, between), Refresh: "manual", Q: -1}
				for i := 0; i < 3; i++ {
					bs := BarSpec{Total: 1}
					if p.prio[i] >= 0 {
						bs.HasPrio, bs.Prio = true, p.prio[i]
					}
					sp.Bars = append(sp.Bars, bs)
					sp.Main = append(sp.Main, Op{K: "add", B: i})
				}
				sp.Main = append(sp.Main, Op{K: "refresh"})
				for i, c := range seq {
					sp.Main = append(sp.Main, Op{K: "prio", B: c.b, N: int64(c.v), F: c.lazy})
					if between && i == 0 {
						sp.Main = append(sp.Main, Op{K: "refresh"})
					}
				}
				sp.Main = append(sp.Main, Op{K: "refresh"}, Op{K: "refresh"}, Op{K: "refresh"})
				for i := 0; i < 3; i++ {
					sp.Main = append(sp.Main, Op{K: "incr", B: i, N: 1})
				}
				sp.Main = append(sp.Main, Op{K: "refresh"}, Op{K: "refresh"})
				out = append(out, sp)
			}
		}
	}
	// a priority change addressed to a bar that has already completed (and stays on screen)
	for _, how := range []string{"bar", "bar-abort"} {
		// (*Bar).SetPriority on a bar that has completed / was aborted and is still displayed
		sp := &Spec{Name: "c06-setpriority-after-" + how, Refresh: "manual", Q: -1}
		for i := 0; i < 3; i++ {
			sp.Bars = append(sp.Bars, BarSpec{Total: 1})
			sp.Main = append(sp.Main, Op{K: "add", B: i})
		}
		end := Op{K: "incr", B: 0, N: 1}
		if how == "bar-abort" {
			end = Op{K: "abort", B: 0}
		}
		sp.Main = append(sp.Main, Op{K: "setprio", B: 1, N: 5}, Op{K: "refresh"}, end, Op{K: "refresh"}, Op{K: "refresh"}, Op{K: "refresh"},
			Op{K: "setprio", B: 0, N: 9}, Op{K: "refresh"}, Op{K: "refresh"}, Op{K: "refresh"}, Op{K: "incr", B: 1, N: 1}, Op{K: "incr", B: 2, N: 1}, Op{K: "refresh"}, Op{K: "refresh"})
		out = append(out, sp)
	}
	for _, lazy := range []bool{false, true} {
		sp := &Spec{Name: fmt.Sprintf("c06-after-complete-%v", lazy), Refresh: "manual", Q: -1}
		for i := 0; i < 3; i++ {
			sp.Bars = append(sp.Bars, BarSpec{Total: 1})
			sp.Main = append(sp.Main, Op{K: "add", B: i})
		}
		sp.Main = append(sp.Main, Op{K: "refresh"}, Op{K: "incr", B: 0, N: 1}, Op{K: "refresh"}, Op{K: "refresh"}, Op{K: "refresh"},
			Op{K: "prio", B: 0, N: 9, F: lazy}, Op{K: "refresh"}, Op{K: "refresh"}, Op{K: "refresh"}, Op{K: "incr", B: 1, N: 1}, Op{K: "incr", B: 2, N: 1}, Op{K: "refresh"}, Op{K: "refresh"})
		out = append(out, sp)
	}
	// priorities at the ends of the int range, also next to popped bars (which get math.MinInt32 + k internally)
	for _, pop := range []bool{false, true} {
		for vi, vals := range [][]int{{math.MaxInt, math.MinInt, 0}, {-1, math.MaxInt, 1}, {math.MaxInt, 0, math.MinInt32}} {
			sp := &Spec{Name: fmt.Sprintf("c06-extreme-%d-pop%v", vi, pop), Refresh: "manual", Q: -1, Pop: pop}
			for i := 0; i < 3; i++ {
				sp.Bars = append(sp.Bars, BarSpec{Total: 1, HasPrio: true, Prio: vals[i]})
				sp.Main = append(sp.Main, Op{K: "add", B: i})
			}
			sp.Main = append(sp.Main, Op{K: "refresh"}, Op{K: "refresh"}, Op{K: "prio", B: 2, N: int64(math.MaxInt - 1)}, Op{K: "refresh"}, Op{K: "refresh"},
				Op{K: "incr", B: 1, N: 1}, Op{K: "refresh"}, Op{K: "refresh"}, Op{K: "refresh"}, Op{K: "refresh"}, Op{K: "incr", B: 0, N: 1}, Op{K: "incr", B: 2, N: 1}, Op{K: "refresh"}, Op{K: "refresh"})
			out = append(out, sp)
		}
	}
	// bars created in an order different from their ids (the harness passes BarID(index)): default priority is creation order
	for _, order := range [][]int{{2, 0, 1}, {1, 2, 0}, {0, 2, 1}} {
		sp := &Spec{Name: fmt.Sprintf("c06-creation-order-%d%d%d", order[0], order[1], order[2]), Refresh: "manual", Q: -1}
		sp.Bars = []BarSpec{{Total: 1}, {Total: 1}, {Total: 1}}
		for _, b := range order {
			sp.Main = append(sp.Main, Op{K: "add", B: b})
		}
		sp.Main = append(sp.Main, Op{K: "refresh"}, Op{K: "refresh"}, Op{K: "refresh"}, Op{K: "refresh"}, Op{K: "incr", B: 0, N: 1}, Op{K: "incr", B: 1, N: 1}, Op{K: "incr", B: 2, N: 1}, Op{K: "refresh"}, Op{K: "refresh"})
		out = append(out, sp)
	}
	// four bars, two immediate changes between two frames (every ordered pair of bars, both value orders); the heap is
	// re-arranged by the first change before the second one arrives
	for i := 0; i < 4; i++ {
		for j := 0; j < 4; j++ {
			if i == j {
				continue
			}
			for vi, vals := range [][2]int64{{10, 20}, {20, 10}, {-1, 10}} {
				sp := &Spec{Name: fmt.Sprintf("c06-double-change-%d%d-%d", i, j, vi), Refresh: "manual", Q: -1}
				for b := 0; b < 4; b++ {
					sp.Bars = append(sp.Bars, BarSpec{Total: 1})
					sp.Main = append(sp.Main, Op{K: "add", B: b})
				}
				sp.Main = append(sp.Main, Op{K: "refresh"}, Op{K: "refresh"},
					Op{K: "setprio", B: i, N: vals[0]}, Op{K: "setprio", B: j, N: vals[1]}, Op{K: "refresh"}, Op{K: "refresh"})
				for b := 0; b < 4; b++ {
					sp.Main = append(sp.Main, Op{K: "incr", B: b, N: 1})
				}
				sp.Main = append(sp.Main, Op{K: "refresh"}, Op{K: "refresh"})
				out = append(out, sp)
			}
		}
	}
	// there and back: one bar is given another priority and, at once, its old one again (both immediate, or through
	// UpdateBarPriority); the frame that follows must show the original order whichever goroutine is ahead
	for i := 0; i < 3; i++ {
		for vi, v := range []int64{10, -1} {
			for _, k := range []string{"setprio", "prio"} {
				sp := &Spec{Name: fmt.Sprintf("c06-there-and-back-%s-%d-%d", k, i, vi), Refresh: "manual", Q: -1}
				for b := 0; b < 3; b++ {
					sp.Bars = append(sp.Bars, BarSpec{Total: 1})
					sp.Main = append(sp.Main, Op{K: "add", B: b})
				}
				sp.Main = append(sp.Main, Op{K: "refresh"}, Op{K: "refresh"},
					Op{K: k, B: i, N: v}, Op{K: k, B: i, N: int64(i)}, Op{K: "refresh"}, Op{K: "refresh"},
					Op{K: k, B: i, N: v}, Op{K: k, B: i, N: int64(i)}, Op{K: k, B: i, N: v}, Op{K: "refresh"}, Op{K: "refresh"})
				for b := 0; b < 3; b++ {
					sp.Main = append(sp.Main, Op{K: "incr", B: b, N: 1})
				}
				sp.Main = append(sp.Main, Op{K: "refresh"}, Op{K: "refresh"})
				out = append(out, sp)
			}
		}
	}
	// a burst of immediate changes to one bar while the heap manager's request queue is short (as long as the number of
	// bars): the requests may pile up, but they take effect in the order of the calls and before the next frame
	for _, k := range []string{"setprio", "prio"} {
		sp := &Spec{Name: "c06-burst-short-queue-" + k, Refresh: "manual", Q: 2}
		sp.Bars = []BarSpec{{Total: 1}, {Total: 1}}
		sp.Main = []Op{{K: "add", B: 0}, {K: "add", B: 1}, {K: "refresh"}, {K: "refresh"},
			{K: k, B: 0, N: 5}, {K: k, B: 0, N: 6}, {K: k, B: 0, N: 7}, {K: k, B: 0, N: 0}, {K: "refresh"}, {K: "refresh"},
			{K: k, B: 1, N: -3}, {K: k, B: 1, N: -2}, {K: k, B: 1, N: 9}, {K: "refresh"}, {K: "refresh"},
			{K: "incr", B: 0, N: 1}, {K: "incr", B: 1, N: 1}, {K: "refresh"}, {K: "refresh"}}
		out = append(out, sp)
	}
	// pop mode: a priority change addressed to a finished bar one, two or three frames after it finished (before it
	// gets its pop priority, between that frame and the one that pops it, after it was popped): it still rises above
	// the running bars
	for _, k := range []int{1, 2, 3} {
		for _, how := range []string{"setprio", "prio"} {
			sp := &Spec{Name: fmt.Sprintf("c06-pop-change-finished-bar-%s-after%d", how, k), Refresh: "manual", Q: -1, Pop: true}
			sp.Bars = []BarSpec{{Total: 9}, {Total: 9}, {Total: 1}}
			sp.Main = []Op{{K: "add", B: 0}, {K: "add", B: 1}, {K: "add", B: 2}, {K: "refresh"}, {K: "incr", B: 2, N: 1}}
			for i := 0; i < k; i++ {
				sp.Main = append(sp.Main, Op{K: "refresh"})
			}
			sp.Main = append(sp.Main, Op{K: how, B: 2, N: 50}, Op{K: "refresh"}, Op{K: "refresh"}, Op{K: "refresh"},
				Op{K: "incr", B: 0, N: 9}, Op{K: "incr", B: 1, N: 9}, Op{K: "refresh"}, Op{K: "refresh"}, Op{K: "refresh"}, Op{K: "refresh"})
			out = append(out, sp)
		}
	}
	// five bars, one of them added with an explicit priority between two changes
	{
		sp := &Spec{Name: "c06-double-change-add", Refresh: "manual", Q: -1}
		sp.Bars = []BarSpec{{Total: 1}, {Total: 1}, {Total: 1}, {Total: 1}, {Total: 1, HasPrio: true, Prio: 15}}
		sp.Main = []Op{{K: "add", B: 0}, {K: "add", B: 1}, {K: "add", B: 2}, {K: "add", B: 3}, {K: "refresh"}, {K: "setprio", B: 0, N: 10}, {K: "setprio", B: 2, N: 20}, {K: "refresh"}, {K: "refresh"},
			{K: "add", B: 4}, {K: "setprio", B: 3, N: 30}, {K: "setprio", B: 0, N: 40}, {K: "refresh"}, {K: "refresh"}}
		for b := 0; b < 5; b++ {
			sp.Main = append(sp.Main, Op{K: "incr", B: b, N: 1})
		}
		sp.Main = append(sp.Main, Op{K: "refresh"}, Op{K: "refresh"})
		out = append(out, sp)
	}
	// a priority change addressed to a bar that is still queued behind its predecessor touches no displayed bar
	for _, v := range []int64{-5, 7} {
		sp := &Spec{Name: fmt.Sprintf("c06-queued-setprio%d", v), Refresh: "manual", Q: -1}
		sp.Bars = []BarSpec{{Total: 1}, {Total: 1}, {Total: 1}, {Total: 1, After: 1}}
		sp.Main = []Op{{K: "add", B: 0}, {K: "add", B: 1}, {K: "add", B: 2}, {K: "add", B: 3}, {K: "refresh"}, {K: "setprio", B: 3, N: v}, {K: "refresh"}, {K: "refresh"}, {K: "refresh"},
			{K: "incr", B: 0, N: 1}, {K: "refresh"}, {K: "refresh"}, {K: "refresh"}, {K: "refresh"}, {K: "incr", B: 1, N: 1}, {K: "incr", B: 2, N: 1}, {K: "incr", B: 3, N: 1}, {K: "refresh"}, {K: "refresh"}}
		out = append(out, sp)
	}
	// priority change from a client thread while another refreshes; auto refresh
	for _, rf := range []string{"manual", "auto"} {
		sp := &Spec{Name: "c06-concurrent", Refresh: rf, Q: -1}
		sp.Bars = []BarSpec{{Total: 2}, {Total: 2}, {Total: 2}}
		sp.Main = []Op{{K: "add", B: 0}, {K: "add", B: 1}, {K: "add", B: 2}}
		sp.Clients = [][]Op{{{K: "prio", B: 0, N: 5}, {K: "incr", B: 0, N: 2}}, {{K: "prio", B: 2, N: -1, F: true}, {K: "incr", B: 2, N: 2}}, {{K: "incr", B: 1, N: 2}}}
		if rf == "manual" {
			sp.Clients = append(sp.Clients, []Op{{K: "refresh"}, {K: "refresh"}, {K: "refresh"}, {K: "refresh"}})
		}
		out = append(out, sp)
	}
	// pop mode: finishing order all permutations of two, and same time
	for _, rf := range []string{"manual", "auto"} {
		for _, order := range [][]int{{0, 1}, {1, 0}} {
			sp := &Spec{Name: fmt.Sprintf("c06-pop-%d%d", order[0], order[1]), Refresh: rf, Q: -1, Pop: true}
			sp.Bars = []BarSpec{{Total: 1}, {Total: 1}, {Total: 5}}
			sp.Main = []Op{{K: "add", B: 0}, {K: "add", B: 1}, {K: "add", B: 2}}
			var ops []Op
			for _, b := range order {
				ops = append(ops, Op{K: "incr", B: b, N: 1})
				if rf == "manual" {
					ops = append(ops, Op{K: "refresh"}, Op{K: "refresh"}, Op{K: "refresh"})
				}
			}
			ops = append(ops, Op{K: "incr", B: 2, N: 5})
			if rf == "manual" {
				ops = append(ops, Op{K: "refresh"}, Op{K: "refresh"}, Op{K: "refresh"})
			}
			sp.Clients = [][]Op{ops}
			out = append(out, sp)
		}
	}
	return out
}

func init() {
	register(&Family{
		Property: "C06",
		Rule: "also: one bar changed and changed back at once, bursts of changes with a request queue as short as the number of bars (all three base strategies), pop mode with a change addressed to the finished bar 1, 2 and 3 frames after it finished; " +
			"three bars created with priority patterns {creation order, descending explicit, ties, one explicit}; sequences of 1 (quick) or 2 (thorough) priority changes over {bar} x {to top, to bottom} x {immediate, lazy}, with or without a refresh between them, then completion; plus concurrent changes from client threads, pop-mode finishing orders, extreme priority values (MaxInt, MinInt) and changes addressed to bars that have completed or were aborted and are still displayed (through Progress.UpdateBarPriority and through Bar.SetPriority); manual and auto refresh; every schedule within the deviation bound. " +
			"Oracle: a reference priority interval per bar and frame from the invoke/return steps of the calls (a change overlapping the cycle may or may not be visible); frames inside the unspecified window of a lazy change are skipped; in every other frame no bar with a definitely larger priority value is above one with a definitely smaller one; in pop mode a finished bar that has risen has no running bar above it.",
		Items: func(tier string) []Item {
			var items []Item
			for _, sp := range c06Programs(tier) {
				if strings.Contains(sp.Name, "short-queue") {
					// (under the base strategy that lets the oldest threads run first the heap manager lags behind
					// its clients, which is what fills its queue)
					items = append(items, specItems("C06", sp, 1, allStrats, nil, c06Oracle)...)
					continue
				}
				items = append(items, specItems("C06", sp, 1, []int{mcrt.StratFIFO, mcrt.StratNewest}, nil, c06Oracle)...)
			}
			return items
		},
	})
}
