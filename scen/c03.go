package scen

import (
	"fmt"
	"strings"

	"mcrt"
)

// endings of a bar used by several families
type ending struct {
	name  string
	total int64 // 0 = default (2)
	rm    bool  // BarRemoveOnComplete
	ops   func(b int) []Op
	// expectations
	gone      bool // absent from the final frame
	completed bool
	aborted   bool
}

var endings = []ending{
	{name: "complete", ops: func(b int) []Op { return completeOps(b, 2) }, completed: true},
	{name: "complete1", ops: func(b int) []Op { return []Op{{K: "incr", B: b, N: 2}} }, completed: true},
	{name: "abort", ops: func(b int) []Op { return []Op{{K: "incr", B: b, N: 1}, {K: "abort", B: b}} }, aborted: true},
	{name: "abortdrop", ops: func(b int) []Op { return []Op{{K: "abort", B: b, F: true}} }, gone: true, aborted: true},
	{name: "rm", rm: true, ops: func(b int) []Op { return completeOps(b, 2) }, gone: true, completed: true},
	{name: "setcur", ops: func(b int) []Op { return []Op{{K: "setcur", B: b, N: 5}} }, completed: true},
	// Abort(true) on a bar that has already completed changes nothing: it stays, completed
	{name: "completeXabortdrop", ops: func(b int) []Op { return []Op{{K: "incr", B: b, N: 2}, {K: "abort", B: b, F: true}} }, completed: true},
	// a bar with unknown total aborted while current == total: must end aborted, not completed
	{name: "abort0", total: -1, ops: func(b int) []Op { return []Op{{K: "abort", B: b}} }, aborted: true},
	// an increment through the moving-average path that overshoots the total: completed, shown at the total
	{name: "ewmaover", ops: func(b int) []Op { return []Op{{K: "ewma", B: b, N: 1}, {K: "ewma", B: b, N: 4}} }, completed: true},
}

func wrapD(wrap string) DecorSpec { return DecorSpec{Wrap: wrap, Widths: []int{4}} }

// endingPrograms: n bars, every combination of endings, decorated with
// on-complete/on-abort wrappers.
func endingPrograms(prefix string, refresh string, q int, n int, ends []ending, manualTail int) []*Spec {
	var out []*Spec
	idx := make([]int, n)
	for {
		sp := &Spec{Name: prefix, Refresh: refresh, Q: q}
		var names []string
		for i := 0; i < n; i++ {
			e := ends[idx[i]]
			names = append(names, e.name)
			tot := int64(2)
			if e.total == -1 {
				tot = 0
			}
			sp.Bars = append(sp.Bars, BarSpec{Total: tot, Rm: e.rm, Pre: []DecorSpec{wrapD("both")}, App: []DecorSpec{{Sync: true, Wrap: "both", Widths: []int{3, 5}}}})
			sp.Main = append(sp.Main, Op{K: "add", B: i})
			sp.Clients = append(sp.Clients, e.ops(i))
		}
		sp.Name = prefix + "-" + strings.Join(names, "+")
		if refresh == "manual" {
			tail := []Op{}
			for k := 0; k < manualTail; k++ {
				tail = append(tail, Op{K: "refresh"})
			}
			// a dedicated refresher that runs after all other clients' operations in program order is not
			// expressible without synchronisation; instead the main thread refreshes after joining: see Main2
			sp.Clients = append(sp.Clients, tail)
		}
		out = append(out, sp)
		k := 0
		for k < n {
			idx[k]++
			if idx[k] < len(ends) {
				break
			}
			idx[k] = 0
			k++
		}
		if k == n {
			break
		}
	}
	return out
}

func endingOf(sp *Spec, b int) *ending {
	parts := strings.Split(sp.Name[strings.Index(sp.Name, "-")+1:], "+")
	// name is prefix-e1+e2..; prefix may itself contain '-': take the last '-' separated token
	last := sp.Name[strings.LastIndex(sp.Name, "-")+1:]
	parts = strings.Split(last, "+")
	if b >= len(parts) {
		return nil
	}
	for i := range endings {
		if endings[i].name == parts[b] {
			return &endings[i]
		}
	}
	return nil
}

// C03: the last frame shows every bar in its final state; nothing is written after Wait.
func c03Oracle(sp *Spec, x *X, res *mcrt.Result) (string, string) {
	if x.WaitStep == 0 {
		return "wait-not-returned", "Progress.Wait did not return"
	}
	if len(x.Writes) != x.WritesAtWait {
		return "write-after-wait", fmt.Sprintf("%d output writes after Wait returned", len(x.Writes)-x.WritesAtWait)
	}
	if sp.Refresh != "auto" {
		return "", ""
	}
	if x.WritesAtWait == 0 {
		if len(sp.Bars) > 0 {
			return "no-final-frame", "no frame was written before Wait returned"
		}
		return "", ""
	}
	f := ParseFrame(x.Writes[x.WritesAtWait-1])
	cancelled := false
	for _, c := range x.Calls {
		if c.Op == "cancel" {
			cancelled = true
		}
	}
	count := map[int]int{}
	for _, id := range f.BarIDs() {
		count[id]++
	}
	termFrames := func(b int) int {
		t := 0
		for _, w := range x.Writes[:x.WritesAtWait] {
			if r := ParseFrame(w).Row(b); r != nil && r.Flags != "R" {
				t++
			}
		}
		return t
	}
	checkRow := func(b int, r *Row) (string, string) {
		switch r.Flags {
		case "C":
			if r.Cur != r.Tot {
				return "final-state-completed", fmt.Sprintf("bar %d shown completed with %d/%d", b, r.Cur, r.Tot)
			}
			if strings.Count(r.Raw, "done") != 2 {
				return "on-complete-decoration", fmt.Sprintf("bar %d completed but its final row lacks the on-complete text: %q", b, r.Raw)
			}
		case "A":
			if strings.Count(r.Raw, "abrt!") != 2 {
				return "on-abort-decoration", fmt.Sprintf("bar %d aborted but its final row lacks the on-abort text: %q", b, r.Raw)
			}
		default:
			return "final-state-running", fmt.Sprintf("bar %d is not in a final state in the last frame: %d/%d %s", b, r.Cur, r.Tot, r.Flags)
		}
		return "", ""
	}
	for b := range sp.Bars {
		e := endingOf(sp, b)
		if cancelled {
			// an external cancellation races with the ending: which final state the bar reaches is decided by the race,
			// but the last frame must show every bar once, in a final state, with matching decorations; a bar created
			// with remove-on-complete that was already drawn in a final state twice has been dropped by that frame and
			// the closing loop renders until nothing changes, so it cannot be in the last frame
			if _, _, ok := addRet(x, b); !ok {
				continue
			}
			if count[b] > 1 {
				return "final-frame-membership", fmt.Sprintf("bar %d appears %d times in the final frame %s", b, count[b], f)
			}
			if count[b] == 0 {
				if !sp.Bars[b].Rm && (e == nil || e.name != "abortdrop") {
					return "final-frame-membership", fmt.Sprintf("bar %d is missing from the final frame %s", b, f)
				}
				continue
			}
			if sp.Bars[b].Rm && termFrames(b) >= 2 {
				return "removed-bar-present", fmt.Sprintf("bar %d (remove-on-complete) was drawn in a final state %d times and is still in the final frame %s", b, termFrames(b), f)
			}
			if len(sp.Bars[b].Pre) > 0 {
				if k, d := checkRow(b, f.Row(b)); k != "" {
					return k, d
				}
			} else if r := f.Row(b); r.Flags == "R" {
				return "final-state-running", fmt.Sprintf("bar %d is not in a final state in the last frame: %d/%d %s", b, r.Cur, r.Tot, r.Flags)
			}
			continue
		}
		if e == nil {
			continue
		}
		if e.gone {
			if count[b] != 0 {
				return "removed-bar-present", fmt.Sprintf("bar %d (%s) is in the final frame %s", b, e.name, f)
			}
			continue
		}
		if count[b] != 1 {
			return "final-frame-membership", fmt.Sprintf("bar %d (%s) appears %d times in the final frame %s", b, e.name, count[b], f)
		}
		r := f.Row(b)
		if e.completed && r.Flags != "C" || e.aborted && r.Flags != "A" {
			return "final-state", fmt.Sprintf("bar %d (%s) is shown as %d/%d %s in the final frame", b, e.name, r.Cur, r.Tot, r.Flags)
		}
		if k, d := checkRow(b, r); k != "" {
			return k, d
		}
	}
	return "", ""
}

func init() {
	register(&Family{
		Property: "C03",
		Rule: "auto-refresh (and manual-refresh for the no-write-after-Wait clause) programs with 1..3 bars, every combination of endings {complete in two steps, complete in one step, abort, abort+drop, remove-on-complete, SetCurrent beyond total, Abort(true) after completion, abort at current == total of an unknown total, moving-average increments overshooting the total}, a finished no-pop bar in pop mode, " +
			"each bar decorated with on-complete/on-abort wrappers (plain and width-synchronised); every schedule within the deviation bound: last increments, ticks, early refresh pumps and Wait interleave freely. " +
			"Oracle: the last write before Wait returned parses into exactly one row per surviving bar in its final state with its on-complete/on-abort text; removed bars absent; write counter unchanged after Wait (also after quiescence).",
		Items: func(tier string) []Item {
			var items []Item
			bound := 1
			if tier == "thorough" {
				bound = 2
			}
			for n := 1; n <= 2; n++ {
				ends := endings
				if n == 2 {
					ends = endings[:8]
				}
				for _, sp := range endingPrograms("c03", "auto", -1, n, ends, 0) {
					if n == 2 {
						items = append(items, specItemsMixed("C03", sp, bound, 1, allStrats, nil, c03Oracle)...)
						continue
					}
					items = append(items, specItems("C03", sp, bound, allStrats, nil, c03Oracle)...)
				}
			}
			for _, sp := range endingPrograms("c03m", "manual", -1, 1, endings, 3) {
				items = append(items, specItems("C03", sp, bound, allStrats, nil, c03Oracle)...)
			}
			// external cancellation racing with the endings (a second bar never ends on its own)
			for _, sp := range endingPrograms("c03c", "auto", -1, 1, endings, 0) {
				// (the second bar shares the first one's synchronised column: a bar leaving in the closing renders must
				// not be waited for)
				sp.Bars = append(sp.Bars, BarSpec{Total: 9, App: []DecorSpec{{Sync: true, Widths: []int{2, 4}}, {Ewma: true, Widths: []int{2}}}})
				sp.Main = append(sp.Main, Op{K: "add", B: 1})
				// (the second bar is inside a moving-average update, waiting for its decorators' update goroutines, while the
				// cancellation and the closing render's request arrive: its goroutine is not idle)
				sp.Clients = append(sp.Clients, []Op{{K: "cancel"}}, []Op{{K: "ewma", B: 1, N: 1}, {K: "ewma", B: 1, N: 1}})
				// (three client threads: two deviations in both tiers; a third did not finish within the thorough budget)
				items = append(items, specItems("C03", sp, 2, []int{mcrt.StratFIFO, mcrt.StratNewest}, nil, c03Oracle)...)
			}
			// the cancellation and the closing render's request both arrive while the bar's goroutine is busy (inside a
			// TraverseDecorators callback): whatever it serves first, the last frame must show the bar aborted
			{
				sp := &Spec{Name: "c03-cancel-while-bar-busy", Refresh: "auto", Q: -1}
				deco := func() BarSpec {
					return BarSpec{Total: 9, Pre: []DecorSpec{wrapD("both")}, App: []DecorSpec{{Sync: true, Wrap: "both", Widths: []int{3, 5}}}}
				}
				sp.Bars = []BarSpec{deco(), deco()}
				sp.Main = []Op{{K: "add", B: 0}, {K: "add", B: 1}}
				// (cancel before the first tick at 100 ms, so that no regular cycle is waiting for the busy bar)
				sp.Clients = [][]Op{{{K: "incr", B: 1, N: 1}, {K: "traversehold", B: 1}}, {{K: "sleep", N: 50}, {K: "cancel"}, {K: "sleep", N: 30}, {K: "release"}}}
				items = append(items, specItems("C03", sp, 1, allStrats, nil, c03Oracle)...)
			}
			// pop mode: a no-pop bar that has finished stays in the frames, in its final state, to the end
			for _, rf := range []string{"auto", "manual"} {
				sp := &Spec{Name: "c03-pop-nopop", Refresh: rf, Q: -1, Pop: true}
				sp.Bars = []BarSpec{{Total: 1, NoPop: true}, {Total: 1}, {Total: 1}}
				sp.Main = []Op{{K: "add", B: 0}, {K: "add", B: 1}, {K: "add", B: 2}}
				ops := []Op{{K: "incr", B: 0, N: 1}, {K: "incr", B: 1, N: 1}}
				if rf == "manual" {
					ops = append(ops, Op{K: "refresh"}, Op{K: "refresh"}, Op{K: "refresh"}, Op{K: "refresh"}, Op{K: "refresh"}, Op{K: "incr", B: 2, N: 1}, Op{K: "refresh"}, Op{K: "refresh"}, Op{K: "refresh"})
				} else {
					ops = append(ops, Op{K: "sleep", N: 550}, Op{K: "incr", B: 2, N: 1})
				}
				sp.Clients = [][]Op{ops}
				items = append(items, specItems("C03", sp, bound, allStrats, nil, func(sp *Spec, x *X, res *mcrt.Result) (string, string) {
					if x.WaitStep == 0 {
						return "wait-not-returned", "Progress.Wait did not return"
					}
					frames := x.Frames()
					if len(frames) == 0 {
						return "", ""
					}
					last := frames[len(frames)-1]
					if r := last.Row(0); r == nil || r.Flags != "C" || r.Cur != r.Tot {
						return "nopop-bar-not-final", fmt.Sprintf("the finished no-pop bar is not in the last frame in its final state: %s", last)
					}
					return "", ""
				})...)
			}
			if tier == "thorough" {
				for _, sp := range endingPrograms("c03", "auto", -1, 3, endings[:5], 0) {
					items = append(items, specItems("C03", sp, 1, allStrats, nil, c03Oracle)...)
				}
				for _, sp := range endingPrograms("c03m", "manual", -1, 2, endings[:5], 4) {
					items = append(items, specItems("C03", sp, bound, allStrats, nil, c03Oracle)...)
				}
			}
			return items
		},
	})
}
