package scen

import (
	"fmt"
	"strings"

	"mcrt"

	"github.com/mattn/go-runewidth"
)

// C12: width-synchronised decorators line up in every frame.

// syncColumn returns the column position (ordinal among the synchronised decorators of
// that side) of decorator ord of bar b, or -1 if it is not synchronised.
func syncColumn(sp *Spec, b, side, ord int) int {
	grp := sp.Bars[b].Pre
	if side == 1 {
		grp = sp.Bars[b].App
	}
	if ord >= len(grp) || !grp[ord].Sync {
		return -1
	}
	col := 0
	for i := 0; i < ord; i++ {
		if grp[i].Sync {
			col++
		}
	}
	return col
}

func c12Oracle(sp *Spec, x *X, res *mcrt.Result) (string, string) {
	if x.WaitStep == 0 {
		return "wait-not-returned", "Progress.Wait did not return"
	}
	frames := x.Frames()
	ei := 0
	for fi, f := range frames {
		type colKey struct{ side, col int }
		type cell struct{ bar, need, got int }
		cols := map[colKey][]cell{}
		used := map[int]int{} // display columns the decorators of each bar returned in this frame
		for ei < len(x.Decors) && x.Decors[ei].Step <= f.Step {
			e := x.Decors[ei]
			ei++
			if e.Got > 0 {
				used[e.Bar] += e.Got
			}
			if e.Got < 0 {
				return "format-width", fmt.Sprintf("frame %d: decorator d%d.%d.%d returned width %d but the returned string is %d columns wide", fi, e.Bar, e.Side, e.Ord, e.Need, -e.Got)
			}
			c := syncColumn(sp, e.Bar, e.Side, e.Ord)
			if c < 0 {
				if e.Got != e.Need {
					return "plain-width", fmt.Sprintf("frame %d: plain decorator d%d.%d.%d needs %d, was given %d", fi, e.Bar, e.Side, e.Ord, e.Need, e.Got)
				}
				continue
			}
			cols[colKey{e.Side, c}] = append(cols[colKey{e.Side, c}], cell{e.Bar, e.Need, e.Got})
		}
		if f.Err {
			continue
		}
		shown := map[int]bool{}
		for _, id := range f.BarIDs() {
			shown[id] = true
		}
		for k, cells := range cols {
			max := 0
			for _, c := range cells {
				if c.need > max {
					max = c.need
				}
			}
			for _, c := range cells {
				if !shown[c.bar] {
					return "decor-of-absent-bar", fmt.Sprintf("frame %d: decorator of bar %d ran but the bar is not in the frame %s", fi, c.bar, f)
				}
				if c.got != max {
					return "column-width", fmt.Sprintf("frame %d side %d column %d: bar %d rendered with width %d, the column needs %d (cells %v)", fi, k.side, k.col, c.bar, c.got, max, cells)
				}
			}
		}
		// a decorator is cut (ellipsis) only when the decorators of its row really exceed the container width
		if sp.Width > 0 && !f.Err {
			for _, r := range f.Rows {
				if r.Ext != -1 || r.Bar < 0 || used[r.Bar] == 0 || used[r.Bar] > sp.Width {
					continue
				}
				if strings.Contains(r.Raw, "…") {
					return "decorator-truncated", fmt.Sprintf("frame %d: the decorators of bar %d take %d of %d columns, yet one is cut: %q", fi, r.Bar, used[r.Bar], sp.Width, r.Raw)
				}
				if w := runewidth.StringWidth(strings.TrimRight(r.Raw, "\n")); w < used[r.Bar] {
					return "decorator-dropped", fmt.Sprintf("frame %d: the decorators of bar %d returned %d columns (container %d), the row has only %d: %q", fi, r.Bar, used[r.Bar], sp.Width, w, r.Raw)
				}
			}
		}
		// the markers of the first synchronised prepend column end at the same offset in every row
		// (the field is right-aligned): check through the raw rows
		off := -1
		for _, r := range f.Rows {
			if r.Ext != -1 || r.Bar < 0 || len(sp.Bars[r.Bar].Pre) == 0 || !sp.Bars[r.Bar].Pre[0].Sync {
				continue
			}
			i := strings.Index(r.Raw, "[b")
			if len(sp.Bars[r.Bar].Pre) > 1 {
				continue
			}
			if off == -1 {
				off = i
			} else if off != i {
				return "column-offset", fmt.Sprintf("frame %d: bar rows start at different offsets although the only prepend decorator is synchronised: %s", fi, f)
			}
		}
	}
	return "", ""
}

func c12Programs(tier string) []*Spec {
	var out []*Spec
	wrapsQuick := []string{"", "both", "meta"}
	wraps := wrapsQuick
	if tier == "thorough" {
		wraps = []string{"", "complete", "abort", "both", "meta", "cmeta"}
	}
	for _, rf := range []string{"manual", "auto"} {
		for _, wrap := range wraps {
			for _, extra := range []bool{false, true} {
				for _, member := range []string{"steady", "join", "leave-rm", "leave-drop", "pop", "swap"} {
					sp := &Spec{Name: fmt.Sprintf("c12-%s-w%s-x%v", member, wrap, extra), Refresh: rf, Q: -1}
					mkBar := func(w1, w2 []int, minW int) BarSpec {
						return BarSpec{Total: 3,
							Pre: []DecorSpec{{Sync: true, Wrap: wrap, Extra: extra, W: minW, Widths: w1}},
							App: []DecorSpec{{Widths: []int{2}}, {Sync: true, Wrap: wrap, Widths: w2, Right: true}}}
					}
					sp.Bars = []BarSpec{mkBar([]int{1, 3, 5}, []int{3, 1}, 0), mkBar([]int{5, 1, 3}, []int{1, 5}, 4)}
					sp.Main = []Op{{K: "add", B: 0}, {K: "add", B: 1}}
					c0 := []Op{{K: "incr", B: 0, N: 1}, {K: "refresh"}, {K: "incr", B: 0, N: 2}, {K: "refresh"}, {K: "refresh"}}
					c1 := []Op{{K: "incr", B: 1, N: 1}, {K: "refresh"}, {K: "incr", B: 1, N: 2}, {K: "refresh"}, {K: "refresh"}}
					switch member {
					case "join":
						sp.Bars = append(sp.Bars, mkBar([]int{7}, []int{2}, 0))
						sp.Bars[2].Total = 1
						c0 = append([]Op{{K: "refresh"}, {K: "add", B: 2}, {K: "refresh"}, {K: "incr", B: 2, N: 1}}, c0...)
					case "leave-rm":
						sp.Bars[1].Rm = true
					case "leave-drop":
						c1 = []Op{{K: "refresh"}, {K: "abort", B: 1, F: true}, {K: "refresh"}, {K: "refresh"}}
					case "pop":
						sp.Pop = true
					case "swap":
						// a bar queued behind bar 0 takes its place (and its column cell) when bar 0 has finished; bar 1 was
						// added first, so it is pushed back after the newcomer in the flush that swaps them
						sp.Bars = append(sp.Bars, mkBar([]int{6, 2}, []int{4}, 0))
						sp.Bars[2].Total = 1
						sp.Bars[2].After = 1
						sp.Main = []Op{{K: "add", B: 1}, {K: "add", B: 0}, {K: "add", B: 2}}
						c0 = append(c0, Op{K: "barwait", B: 0}, Op{K: "incr", B: 2, N: 1}, Op{K: "refresh"}, Op{K: "refresh"}, Op{K: "refresh"})
					}
					if rf == "auto" {
						strip := func(ops []Op) []Op {
							var o []Op
							for _, op := range ops {
								if op.K != "refresh" {
									o = append(o, op)
								}
							}
							return o
						}
						c0, c1 = strip(c0), strip(c1)
					}
					sp.Clients = [][]Op{c0, c1}
					out = append(out, sp)
				}
			}
		}
	}
	{
		// three bars, unequal column heights on both sides; wide (2-column) texts
		for _, rf := range []string{"manual", "auto"} {
			sp := &Spec{Name: "c12-uneven3", Refresh: rf, Q: -1}
			sp.Bars = []BarSpec{
				{Total: 2, Pre: []DecorSpec{syncD(1, 4), syncD(2)}, App: []DecorSpec{syncD(3)}},
				{Total: 2, Pre: []DecorSpec{syncD(6, 1)}, App: []DecorSpec{{Sync: true, Wide: true, Widths: []int{5, 2}}}},
				{Total: 2, Pre: []DecorSpec{{Widths: []int{2}}, syncD(2, 2, 5)}, App: []DecorSpec{syncD(1), syncD(4)}},
			}
			sp.Main = []Op{{K: "add", B: 0}, {K: "add", B: 1}, {K: "add", B: 2}}
			for i := 0; i < 3; i++ {
				ops := completeOps(i, 2)
				if rf == "manual" {
					ops = append(ops, Op{K: "refresh"}, Op{K: "refresh"})
				}
				sp.Clients = append(sp.Clients, ops)
			}
			out = append(out, sp)
		}
	}
	// a colouring OnCompleteMeta wrapper in front of a synchronised decorator, in a container just wide enough
	for _, rf := range []string{"manual", "auto"} {
		sp := &Spec{Name: "c12-colour-tight", Refresh: rf, Q: -1, Width: 11}
		sp.Bars = []BarSpec{
			{Total: 1, Pre: []DecorSpec{{Wrap: "ccolor", Widths: []int{4}}, syncD(3)}},
			{Total: 2, Pre: []DecorSpec{{Widths: []int{4}}, syncD(5)}},
		}
		sp.Main = []Op{{K: "add", B: 0}, {K: "add", B: 1}}
		ops := []Op{{K: "incr", B: 0, N: 1}}
		if rf == "manual" {
			ops = append(ops, Op{K: "refresh"}, Op{K: "refresh"}, Op{K: "refresh"})
		} else {
			ops = append(ops, Op{K: "barwait", B: 0}, Op{K: "sleep", N: 250})
		}
		ops = append(ops, Op{K: "incr", B: 1, N: 2})
		if rf == "manual" {
			ops = append(ops, Op{K: "refresh"}, Op{K: "refresh"})
		}
		sp.Clients = [][]Op{ops}
		out = append(out, sp)
	}
	// a narrow container: one bar's first decorator only fits partly (it is cut), the synchronised decorator behind it
	// has no room left but still takes part in the column; the other bar reaches its synchronised cell
	for _, rf := range []string{"manual", "auto"} {
		sp := &Spec{Name: "c12-truncated-neighbour", Refresh: rf, Q: -1, Width: 20}
		sp.Bars = []BarSpec{
			{Total: 2, Pre: []DecorSpec{{Widths: []int{26}}, syncD(3)}, App: []DecorSpec{syncD(2)}},
			{Total: 2, Pre: []DecorSpec{{Widths: []int{4}}, syncD(5)}, App: []DecorSpec{syncD(4)}},
		}
		sp.Main = []Op{{K: "add", B: 0}, {K: "add", B: 1}}
		for i := 0; i < 2; i++ {
			ops := completeOps(i, 2)
			if rf == "manual" {
				ops = append(ops, Op{K: "refresh"}, Op{K: "refresh"})
			}
			sp.Clients = append(sp.Clients, ops)
		}
		out = append(out, sp)
	}
	// user code that keeps one initialised WC value and builds every decorator of a column from it
	for _, rf := range []string{"manual", "auto"} {
		sp := &Spec{Name: "c12-shared-wc", Refresh: rf, Q: -1}
		for i := 0; i < 3; i++ {
			sp.Bars = append(sp.Bars, BarSpec{Total: 2, Pre: []DecorSpec{{Sync: true, SharedWC: 1, Widths: []int{i + 2, 4 - i}}}, App: []DecorSpec{{Sync: true, SharedWC: 1, Widths: []int{3 - i, 2}}}})
			sp.Main = append(sp.Main, Op{K: "add", B: i})
			ops := completeOps(i, 2)
			if rf == "manual" {
				ops = append(ops, Op{K: "refresh"}, Op{K: "refresh"})
			}
			sp.Clients = append(sp.Clients, ops)
		}
		out = append(out, sp)
	}
	return out
}

func init() {
	register(&Family{
		Property: "C12",
		Rule: "layouts: 2..3 bars, a synchronised decorator on each side (plus a plain one), wrapped in {none, OnComplete, OnAbort, both, Meta, OnCompleteMeta}, minimum width 0/4, extra-space flag on/off, text widths changing from frame to frame; membership events {steady, a bar joins, leaves by remove-on-complete, by abort+drop, pop mode}; unequal column heights (thorough); manual (exact frames) and auto refresh; every schedule within the deviation bound. " +
			"Oracle: a recording decorator stores per frame the width it needs (text, minimum width, extra space) and the width Format returned; in every frame every synchronised column has one width equal to the maximum needed among the bars shown; plain decorators get exactly what they need; decorators never run for a bar that is not in the frame; a decorator is cut with an ellipsis only when the decorators of its row exceed the container width (colouring OnCompleteMeta wrapper in a container just wide enough); decorators built from one reused, already initialised WC value still synchronise.",
		Items: func(tier string) []Item {
			var items []Item
			bound := 1
			for _, sp := range c12Programs(tier) {
				b := bound
				if tier == "thorough" && sp.Refresh == "manual" && len(sp.Bars) == 2 {
					b = 2
				}
				items = append(items, specItemsMixed("C12", sp, b, 1, allStrats, nil, c12Oracle)...)
			}
			return items
		},
	})
}
