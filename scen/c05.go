package scen

import (
	"fmt"
	"sort"
	"strings"

	"mcrt"
)

// C05: every bar in the container is drawn exactly once per frame.

func addRet(x *X, b int) (inv, ret int, ok bool) {
	name := fmt.Sprintf("add%d", b)
	for _, c := range x.Calls {
		if c.Op == name && c.Res == "ok" {
			return c.Inv, c.Ret, true
		}
	}
	return 0, 0, false
}

// removable reports whether a bar may legitimately leave the frames.
func removable(sp *Spec, x *X, b int) bool {
	bs := sp.Bars[b]
	if bs.Rm || (sp.Pop && !bs.NoPop) {
		return true
	}
	// Abort(true) makes the bar removable unless the bar had already completed when it was issued
	// (same client, program order): Abort has no effect on a completed bar
	for ci, ops := range sp.Clients {
		_ = ci
		completedBefore := false
		sum := int64(0)
		for _, o := range ops {
			if o.B != b {
				continue
			}
			if o.K == "incr" {
				sum += o.N
				if bs.Total > 0 && sum >= bs.Total {
					completedBefore = true
				}
			}
			if o.K == "abort" && o.F && !completedBefore {
				return true
			}
		}
	}
	// a bar with a successor queued behind it is replaced by it
	for _, o := range sp.Bars {
		if o.After == b+1 {
			return true
		}
	}
	return false
}

func notifiedIDs(x *X) ([]int, bool) {
	if len(x.Notified) != 1 || len(x.NotifiedIDs) != 1 {
		return nil, false
	}
	return x.NotifiedIDs[0], true
}

func c05Oracle(sp *Spec, x *X, res *mcrt.Result) (string, string) {
	if x.WaitStep == 0 {
		return "wait-not-returned", "Progress.Wait did not return"
	}
	frames := x.Frames()
	present := make([]map[int]bool, len(frames))
	for i, f := range frames {
		if f.Err {
			continue
		}
		seen := map[int]bool{}
		for _, id := range f.BarIDs() {
			if seen[id] {
				return "duplicate-bar", fmt.Sprintf("bar %d appears twice in frame %d: %s", id, i, f)
			}
			seen[id] = true
		}
		present[i] = seen
	}
	for b := range sp.Bars {
		inv, ret, ok := addRet(x, b)
		waiting := sp.Bars[b].After > 0
		rem := removable(sp, x, b)
		gone := false
		for i, f := range frames {
			if f.Err {
				continue
			}
			in := present[i][b]
			if in && (!ok || f.Step < inv) {
				return "bar-before-add", fmt.Sprintf("bar %d drawn in frame %d before it was added", b, i)
			}
			if !ok {
				continue
			}
			if in && gone && !waiting {
				return "bar-came-back", fmt.Sprintf("bar %d absent from an earlier frame, present again in frame %d: %s", b, i, f)
			}
			// must(F): added before the previous frame was flushed, hence before this cycle began
			// a frame that fills the terminal (height = rows - 1) may have cut off the bars at its top
			full := sp.Pty && len(f.Rows) >= sp.TermH-1
			if full && !in {
				continue
			}
			if cs := x.CycleStart(frames, i); !in && !rem && !waiting && cs > 0 && ret < cs {
				return "bar-missing", fmt.Sprintf("bar %d (added at step %d) missing from frame %d (cycle began at step %d): %s", b, ret, i, cs, f)
			}
			if !in && i > 0 && present[i-1][b] {
				gone = true
			}
		}
	}
	// a bar that is set to be removed is drawn terminal at most twice (the second terminal frame drops it)
	for b := range sp.Bars {
		if !sp.Bars[b].Rm || sp.Pop {
			continue
		}
		t := 0
		for _, f := range frames {
			if r := f.Row(b); r != nil && r.Flags == "C" {
				t++
			}
		}
		if t > 2 {
			return "removable-bar-stays", fmt.Sprintf("bar %d is set to be removed on completion but was drawn completed in %d frames", b, t)
		}
	}
	if sp.Notifier {
		ids, ok := notifiedIDs(x)
		if !ok {
			return "notifier-count", fmt.Sprintf("shutdown notifier delivered %d values", len(x.Notified))
		}
		faulty := false
		for _, bs := range sp.Bars {
			faulty = faulty || bs.FillErrAt > 0
		}
		if sp.Pty || faulty {
			// frames may be clipped by the terminal height, or the last cycle abandoned after a filler's error: every bar
			// that cannot have been removed (the failing bar aside) is still listed
			for b := range sp.Bars {
				if _, _, added := addRet(x, b); !added || removable(sp, x, b) || sp.Bars[b].FillErrAt > 0 {
					continue
				}
				found := false
				for _, id := range ids {
					found = found || id == b
				}
				if !found {
					return "notifier-missing-bar", fmt.Sprintf("bar %d was never removed but the notifier lists only %v", b, ids)
				}
			}
		} else if !sp.Pop {
			// expected: bars still in the container = those in the last frame, minus the ones that frame dropped
			want := []int{}
			if n := len(frames); n > 0 {
				last := frames[n-1]
				for _, id := range last.BarIDs() {
					r := last.Row(id)
					dropped := false
					if removable(sp, x, id) && r.Flags != "R" && n > 1 {
						if pr := frames[n-2].Row(id); pr != nil && pr.Flags != "R" {
							dropped = true
						}
					}
					if !dropped {
						want = append(want, id)
					}
				}
			}
			sort.Ints(want)
			if fmt.Sprint(ids) != fmt.Sprint(want) && sp.Refresh == "auto" && len(frames) > 0 {
				return "notifier-set", fmt.Sprintf("notifier listed bars %v, the container holds %v (last frame %s)", ids, want, frames[len(frames)-1])
			}
		}
	}
	return "", ""
}

func c05Programs(tier string) []*Spec {
	var out []*Spec
	qs := []int{-1, 2}
	for _, rf := range []string{"auto", "manual"} {
		for _, q := range qs {
			ends := []ending{endings[0], endings[2], endings[3], endings[4]}
			for _, sp := range endingPrograms("c05", rf, q, 2, ends, 4) {
				sp.Notifier = true
				out = append(out, sp)
			}
			// a bar added by a client while cycles are running
			sp := &Spec{Name: "c05-lateadd", Refresh: rf, Q: q, Notifier: true}
			sp.Bars = []BarSpec{{Total: 2}, {Total: 1}}
			sp.Main = []Op{{K: "add", B: 0}}
			sp.Clients = [][]Op{{{K: "incr", B: 0, N: 1}, {K: "add", B: 1}, {K: "incr", B: 1, N: 1}, {K: "incr", B: 0, N: 1}}}
			if rf == "manual" {
				sp.Clients = append(sp.Clients, []Op{{K: "refresh"}, {K: "refresh"}, {K: "refresh"}})
			}
			out = append(out, sp)
			// pop mode
			sp = &Spec{Name: "c05-pop", Refresh: rf, Q: q, Pop: true}
			// bar 3 keeps the container rendering for several cycles after the others have finished
			sp.Bars = []BarSpec{{Total: 1}, {Total: 2}, {Total: 1, NoPop: true}, {Total: 1}}
			sp.Main = []Op{{K: "add", B: 0}, {K: "add", B: 1}, {K: "add", B: 2}, {K: "add", B: 3}}
			sp.Clients = [][]Op{{{K: "incr", B: 0, N: 1}, {K: "incr", B: 2, N: 1}}, completeOps(1, 2)}
			if rf == "manual" {
				sp.Clients = append(sp.Clients, []Op{{K: "refresh"}, {K: "refresh"}, {K: "refresh"}, {K: "refresh"}, {K: "refresh"}, {K: "refresh"}, {K: "incr", B: 3, N: 1}, {K: "refresh"}, {K: "refresh"}, {K: "refresh"}})
			} else {
				sp.Clients = append(sp.Clients, []Op{{K: "sleep", N: 650}, {K: "incr", B: 3, N: 1}})
			}
			sp.Notifier = true
			out = append(out, sp)
		}
	}
	// Abort arriving on a bar that has just completed (before its second terminal frame) changes nothing: a plain bar
	// stays, a remove-on-complete bar still goes
	for _, rf := range []string{"auto", "manual"} {
		for _, rm := range []bool{false, true} {
			sp := &Spec{Name: fmt.Sprintf("c05-abort-after-complete-rm%v", rm), Refresh: rf, Q: -1, Notifier: true}
			sp.Bars = []BarSpec{{Total: 2, Rm: rm}, {Total: 9}}
			sp.Main = []Op{{K: "add", B: 0}, {K: "add", B: 1}}
			ops := []Op{{K: "incr", B: 0, N: 2}, {K: "abort", B: 0, F: !rm}}
			fin := []Op{{K: "incr", B: 1, N: 1}}
			if rf == "manual" {
				ops = append(ops, Op{K: "refresh"}, Op{K: "refresh"}, Op{K: "refresh"}, Op{K: "refresh"})
				fin = append(fin, Op{K: "refresh"}, Op{K: "refresh"})
			} else {
				fin = append(fin, Op{K: "barwait", B: 0}, Op{K: "get", B: 0})
			}
			fin = append(fin, Op{K: "incr", B: 1, N: 8})
			if rf == "manual" {
				fin = append(fin, Op{K: "refresh"}, Op{K: "refresh"}, Op{K: "refresh"})
			}
			sp.Clients = [][]Op{ops, fin}
			out = append(out, sp)
		}
	}
	// more rows than the terminal shows, then the bars at the bottom leave: the bars that were cut off are still in
	// the container and come back
	for _, sp0 := range c04Programs(tier) {
		if strings.HasPrefix(sp0.Name, "c04-tall-drop") {
			sp := *sp0
			sp.Name = "c05-tall-drop"
			sp.Notifier = true
			out = append(out, &sp)
		}
	}
	// more bars than queue length: re-pushes go through detached goroutines (partition event push-detached)
	for _, rf := range []string{"auto", "manual"} {
		for _, q := range []int{0, 1} {
			sp := &Spec{Name: "c05-nq", Refresh: rf, Q: q, Notifier: true}
			sp.Bars = []BarSpec{{Total: 2}, {Total: 2}}
			sp.Main = []Op{{K: "add", B: 0}, {K: "add", B: 1}}
			for i := 0; i < 2; i++ {
				ops := completeOps(i, 2)
				if rf == "manual" {
					ops = append(ops, Op{K: "refresh"}, Op{K: "refresh"}, Op{K: "refresh"})
				}
				sp.Clients = append(sp.Clients, ops)
			}
			out = append(out, sp)
		}
	}
	if tier == "thorough" {
		for _, rf := range []string{"auto", "manual"} {
			ends := []ending{endings[0], endings[3], endings[4]}
			for _, sp := range endingPrograms("c05", rf, -1, 3, ends, 5) {
				sp.Notifier = true
				out = append(out, sp)
			}
		}
	}
	// a filler fails in some cycle: the cycle is abandoned, but no healthy bar is lost on the way (the notifier lists
	// every one of them), whichever bar fails and wherever the others are in that cycle
	for _, rf := range []string{"manual", "auto"} {
		for fb := 0; fb < 3; fb++ {
			for _, at := range []int{1, 2} {
				sp := &Spec{Name: fmt.Sprintf("c05-filler-error-b%d@%d", fb, at), Refresh: rf, Q: -1, Notifier: true}
				for i := 0; i < 3; i++ {
					bs := BarSpec{Total: 5}
					if i == fb {
						bs.FillErrAt = at
					}
					sp.Bars = append(sp.Bars, bs)
					sp.Main = append(sp.Main, Op{K: "add", B: i})
				}
				if rf == "manual" {
					sp.Clients = [][]Op{{{K: "refresh"}, {K: "incr", B: 0, N: 1}, {K: "refresh"}, {K: "refresh"}}}
				} else {
					sp.Clients = [][]Op{{{K: "incr", B: 0, N: 1}, {K: "sleep", N: 250}}}
				}
				out = append(out, sp)
			}
		}
	}
	return out
}

func init() {
	register(&Family{
		Property: "C05",
		Rule: "also: a filler error in each bar position (first or second cycle), manual and auto refresh: every healthy bar stays in the notifier's list; " +
			"histories of Add (before and during rendering), completion, abort, abort+drop, remove-on-complete and pop over 2..3 bars, queue length default and 2 (no detached push possible), auto and manual refresh, shutdown notifier on; every schedule within the deviation bound. " +
			"Oracle per frame: ids distinct; a bar whose Add returned before the previous frame was flushed and that is not removable is present; a bar never returns after leaving; no bar before its Add was invoked; the notifier value is exactly one list equal to the bars of the last frame minus those that frame dropped.",
		Items: func(tier string) []Item {
			var items []Item
			bound := 1
			if tier == "thorough" {
				bound = 2
			}
			for _, sp := range c05Programs(tier) {
				b := bound
				if len(sp.Bars) >= 3 {
					b = 1
				}
				if sp.Q >= 0 && sp.Q < len(sp.Bars) {
					its := specItems("C05", sp, 1, allStrats, []string{"n>q"}, c05Oracle)
					for i := range its {
						its[i].Cfg = mcrt.Config{MaxSteps: 4000, FairAfter: 1500}
					}
					items = append(items, its...)
					continue
				}
				items = append(items, specItems("C05", sp, b, allStrats, nil, c05Oracle)...)
			}
			return items
		},
	})
}
