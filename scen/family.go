package scen

import (
	"fmt"
	"sort"
	"strings"

	"mcrt"
	"mcrt/explore"
)

// Item is one unit of exploration work: a closed program plus its bounds.
type Item struct {
	Name   string
	Bound  int
	Strat  int
	Tags   []string // static partition tags of the program
	Exec   explore.Exec
	Sample string
	Chunk  *SeqChunk   // sequential enumeration item (no scheduler search)
	Cfg    mcrt.Config // MaxSteps/FairAfter overrides (zero = defaults)
	Race   bool        // run in the race variant of the driver (ThreadSanitizer as per-execution oracle)
	All    bool        // unbounded search over all interleavings, pruned by happens-before state keys
	Ticks  int         // with All: how many early environment ticks are offered
}

type SeqFound struct {
	Key, Detail, Input string
}

type Family struct {
	Property string
	Items    func(tier string) []Item
	Rule     string
	Notes    []string
}

var Families = map[string]*Family{}

func register(f *Family) { Families[f.Property] = f }

var stratNames = []string{"fifo", "oldest", "newest"}

// blockedKey summarises which library/main threads were left blocked and where.
func blockedKey(res *mcrt.Result) string {
	set := map[string]bool{}
	for _, b := range res.Blocked {
		if b.Func == "" {
			continue
		}
		role := b.Role
		if !LibThread(role) {
			role = "client"
		}
		set[role+"@"+b.Func] = true
	}
	var ks []string
	for k := range set {
		ks = append(ks, k)
	}
	sort.Strings(ks)
	return strings.Join(ks, ",")
}

// Oracle inspects one finished execution; it returns "" or a clause name plus detail.
type Oracle func(sp *Spec, x *X, res *mcrt.Result) (clause, detail string)

// specItems expands a program over base strategies.
// specItemsMixed: the deep bound under the first base strategy, the shallow one under the others (the base strategies
// differ in which schedule costs nothing; one of them carries the deepest search).
func specItemsMixed(prop string, sp *Spec, deep, shallow int, strats []int, tags []string, oracle Oracle) []Item {
	items := specItems(prop, sp, deep, strats[:1], tags, oracle)
	return append(items, specItems(prop, sp, shallow, strats[1:], tags, oracle)...)
}

func specItems(prop string, sp *Spec, bound int, strats []int, tags []string, oracle Oracle) []Item {
	var out []Item
	for _, st := range strats {
		sp := sp
		out = append(out, Item{
			Name:   fmt.Sprintf("%s/%s/d%d", sp.String(), stratNames[st], bound),
			Bound:  bound,
			Strat:  st,
			Tags:   tags,
			Sample: sp.String(),
			Exec: func(ch mcrt.Chooser, cfg mcrt.Config) *explore.Outcome {
				x := NewX()
				cfg.OnRendezvous = func(sender, receiver, _ string) {
					// a render cycle begins when the container goroutine takes a refresh request
					if strings.HasSuffix(receiver, ">p.serve") && (strings.Contains(sender, "RefreshListener") || strings.Contains(sender, "tryEarlyRefresh")) {
						x.CycleBegin = append(x.CycleBegin, mcrt.Step())
					}
				}
				res := mcrt.Run(cfg, ch, func() { sp.Run(x) })
				out := &explore.Outcome{Res: res}
				for r := range res.Roles {
					if strings.Contains(r, "heapManager.push.func") {
						x.Event("push-detached")
					}
				}
				for _, e := range x.EventNames() {
					out.Events = append(out.Events, e)
				}
				out.Events = append(out.Events, tags...)
				sort.Strings(out.Events)
				out.Obs = x.Obs() + "|" + res.Verdict
				if DumpRaw {
					for _, w := range x.Writes {
						out.Obs += fmt.Sprintf("\nRAW@%d %q", w.Step, w.Data)
					}
				}
				switch {
				case res.Verdict != "":
					out.Violation = res.Verdict
					out.Key = res.Verdict + "|" + blockedKey(res)
					out.Detail = res.Msg
					if res.Verdict == mcrt.VPanic {
						out.Key = res.Verdict + ":" + res.Msg
						out.Detail = res.Msg + "\n" + res.Stack
					}
				default:
					if clause, detail := oracle(sp, x, res); clause != "" {
						out.Violation = "ORACLE"
						out.Key = "ORACLE:" + clause
						out.Detail = detail
					}
				}
				return out
			},
		})
	}
	return out
}

// DumpRaw (debugging aid of `mc run`): append the raw output writes to the observation.
var DumpRaw bool

var allStrats = []int{mcrt.StratFIFO, mcrt.StratOldest, mcrt.StratNewest}

// seqItems turns a sequential family's chunks into work items.
func seqItems(prop, tier string) []Item {
	var items []Item
	for _, c := range SeqFamilies[prop](tier) {
		c := c
		items = append(items, Item{Name: c.Name, Chunk: &c, Sample: c.Name})
	}
	return items
}
