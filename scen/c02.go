package scen

import (
	"fmt"
	"strings"

	"mcrt"
)

// C02: no panic and no hang for any schedule or order of valid API calls.

func c02Oracle(sp *Spec, x *X, res *mcrt.Result) (string, string) {
	// panics, deadlocks and livelocks are verdicts of the execution itself (handled by the caller)
	if x.WaitStep == 0 {
		return "wait-not-returned", "Progress.Wait did not return"
	}
	for _, c := range x.Calls {
		if c.Ret == 0 {
			return "call-blocked", fmt.Sprintf("call %s of client %d never returned", c.Op, c.Client)
		}
	}
	var lateGets []string
	for _, c := range x.Calls {
		if c.Client != 0 || c.Inv < x.WaitStep {
			continue
		}
		switch {
		case strings.HasPrefix(c.Op, "add"):
			if c.Res != "ErrDone" {
				return "late-add", fmt.Sprintf("Add after Wait returned %q, want ErrDone", c.Res)
			}
		case strings.HasPrefix(c.Op, "write("):
			if c.Res != "0,ErrDone" {
				return "late-write", fmt.Sprintf("Write after Wait returned %q, want (0, ErrDone)", c.Res)
			}
		case c.Op == "get0":
			lateGets = append(lateGets, c.Res)
		case strings.HasPrefix(c.Op, "proxyr") || strings.HasPrefix(c.Op, "proxyw"):
			if c.Res != "nil" && c.Res != "skipped" {
				return "late-proxy", fmt.Sprintf("%s after Wait returned %q, want nil", c.Op, c.Res)
			}
		}
	}
	for i := 1; i < len(lateGets); i++ {
		if lateGets[i] != lateGets[0] {
			return "late-mutator-effect", fmt.Sprintf("getters changed after the container was done: %q then %q", lateGets[0], lateGets[i])
		}
	}
	if len(lateGets) > 0 && !strings.Contains(lateGets[0], "run=false") {
		return "late-running", fmt.Sprintf("bar still running after Wait: %s", lateGets[0])
	}
	return "", ""
}

var c02Alphabet = []Op{
	{K: "add", B: 1}, {K: "incr", B: 0, N: 1}, {K: "incr", B: 0, N: 3}, {K: "setcur", B: 0, N: 2}, {K: "setcur", B: 0, N: 7}, {K: "settotal", B: 0, N: -1, F: true},
	{K: "trigger", B: 0}, {K: "refill", B: 0, N: 1}, {K: "abort", B: 0}, {K: "abort", B: 0, F: true}, {K: "prio", B: 0, N: 4},
	{K: "write", S: "text\n"}, {K: "get", B: 0}, {K: "traverse", B: 0}, {K: "proxyr", B: 0}, {K: "proxyw", B: 0}, {K: "ewma", B: 0, N: 1}, {K: "avgadj", B: 0},
}

var c02Late = []Op{
	{K: "get", B: 0}, {K: "add", B: 2}, {K: "write", S: "late\n"}, {K: "write", S: ""}, {K: "incr", B: 0, N: 1}, {K: "setcur", B: 0, N: 7}, {K: "settotal", B: 0, N: 9, F: true},
	{K: "trigger", B: 0}, {K: "refill", B: 0, N: 1}, {K: "abort", B: 0}, {K: "prio", B: 0, N: 1}, {K: "traverse", B: 0}, {K: "ewma", B: 0, N: 1},
	{K: "proxyr", B: 0}, {K: "proxyw", B: 0}, {K: "barwait", B: 0}, {K: "get", B: 0}, {K: "isrun", B: 0},
}

func c02Programs(tier string) []*Spec {
	var out []*Spec
	var hists [][]Op
	for _, a := range c02Alphabet {
		hists = append(hists, []Op{a})
	}
	firsts := map[string]bool{"add": true, "abort": true, "settotal": true, "ewma": true, "write": true}
	for _, a := range c02Alphabet {
		if tier != "thorough" && !firsts[a.K] {
			continue
		}
		for _, b := range c02Alphabet {
			hists = append(hists, []Op{a, b})
		}
	}
	for _, rf := range []string{"auto", "none", "manual"} {
		for _, done := range []string{"cancel", "shutdown", "wait-only"} {
			for hi, h := range hists {
				if done == "wait-only" && hi >= len(c02Alphabet) && tier != "thorough" {
					continue
				}
				// (a history that adds twice adds two different bars: the harness keeps one handle per bar slot)
				if len(h) == 2 && h[0].K == "add" && h[1].K == "add" {
					h = []Op{h[0], {K: "add", B: 2}}
				}
				var names []string
				for _, o := range h {
					names = append(names, o.String())
				}
				for _, total := range []int64{3, 0} {
					if total == 0 && (tier != "thorough" || len(h) > 1) {
						continue
					}
					sp := &Spec{Name: fmt.Sprintf("c02-%s-t%d-%s", done, total, strings.Join(names, ".")), Refresh: rf, Q: -1}
					sp.Bars = []BarSpec{{Total: total, Pre: []DecorSpec{{Ewma: true, Listen: true, Sync: true, Widths: []int{2}}}}, {Total: 1, Pre: []DecorSpec{syncD(3)}}, {Total: 1}}
					sp.Main = []Op{{K: "add", B: 0}}
					ops := append([]Op{}, h...)
					if rf == "manual" {
						ops = append(ops, Op{K: "refresh"})
					}
					sp.Clients = [][]Op{ops}
					switch done {
					case "wait-only":
						// every bar must end on its own: a second client finishes them after the history
						sp.Clients = append(sp.Clients, []Op{{K: "abort", B: 0}, {K: "abort", B: 1}})
						sp.Clients[0] = append(sp.Clients[0], Op{K: "abort", B: 1}, Op{K: "abort", B: 2})
					default:
						sp.Clients = append(sp.Clients, []Op{{K: done}})
					}
					sp.Late = c02Late
					out = append(out, sp)
				}
			}
		}
	}
	// the output fails at the k-th write (environment answer): the same single-call histories around a render error
	for _, rf := range []string{"auto", "manual"} {
		for _, k := range []int{1, 2} {
			for _, a := range c02Alphabet {
				sp := &Spec{Name: fmt.Sprintf("c02-failwrite@%d-%s", k, a.String()), Refresh: rf, Q: -1, FailWrite: k}
				sp.Bars = []BarSpec{{Total: 3, Pre: []DecorSpec{{Ewma: true, Listen: true, Sync: true, Widths: []int{2}}}}, {Total: 1, Pre: []DecorSpec{syncD(3)}}, {Total: 1}}
				sp.Main = []Op{{K: "add", B: 0}}
				ops := []Op{a}
				if rf == "manual" {
					ops = append(ops, Op{K: "refresh"}, Op{K: "refresh"}, Op{K: "refresh"})
				}
				sp.Clients = [][]Op{ops}
				sp.Late = c02Late
				out = append(out, sp)
			}
		}
	}
	// a queued bar with width-synchronised decorators takes over from its predecessor while other bars are pushed back
	for _, rf := range []string{"auto", "manual"} {
		sp := &Spec{Name: "c02-queued-sync", Refresh: rf, Q: -1}
		sp.Bars = []BarSpec{{Total: 1, Pre: []DecorSpec{syncD(2)}}, {Total: 2, Pre: []DecorSpec{syncD(3)}}, {Total: 1, After: 1, Pre: []DecorSpec{syncD(4)}}}
		sp.Main = []Op{{K: "add", B: 0}, {K: "add", B: 1}, {K: "add", B: 2}}
		ops := []Op{{K: "incr", B: 0, N: 1}}
		if rf == "manual" {
			ops = append(ops, Op{K: "refresh"}, Op{K: "refresh"}, Op{K: "refresh"}, Op{K: "refresh"})
		} else {
			ops = append(ops, Op{K: "barwait", B: 0}, Op{K: "sleep", N: 250})
		}
		ops = append(ops, Op{K: "incr", B: 2, N: 1}, Op{K: "incr", B: 1, N: 2})
		if rf == "manual" {
			ops = append(ops, Op{K: "refresh"}, Op{K: "refresh"}, Op{K: "refresh"})
		}
		sp.Clients = [][]Op{ops}
		sp.Late = c02Late
		out = append(out, sp)
	}
	// a bar queued behind a predecessor that leaves by removal (abort+drop, remove-on-complete)
	for _, rf := range []string{"auto", "manual"} {
		for _, how := range []string{"abortdrop", "rm"} {
			sp := &Spec{Name: "c02-queued-after-" + how, Refresh: rf, Q: -1}
			sp.Bars = []BarSpec{{Total: 1, Rm: how == "rm"}, {Total: 1, After: 1}, {Total: 1}}
			sp.Main = []Op{{K: "add", B: 0}, {K: "add", B: 1}, {K: "add", B: 2}}
			end := Op{K: "incr", B: 0, N: 1}
			if how == "abortdrop" {
				end = Op{K: "abort", B: 0, F: true}
			}
			ops := []Op{end}
			if rf == "manual" {
				ops = append(ops, Op{K: "refresh"}, Op{K: "refresh"}, Op{K: "refresh"}, Op{K: "refresh"})
			} else {
				ops = append(ops, Op{K: "barwait", B: 0}, Op{K: "sleep", N: 250})
			}
			ops = append(ops, Op{K: "incr", B: 1, N: 1}, Op{K: "incr", B: 2, N: 1})
			if rf == "manual" {
				ops = append(ops, Op{K: "refresh"}, Op{K: "refresh"}, Op{K: "refresh"})
			}
			sp.Clients = [][]Op{ops}
			sp.Late = c02Late
			out = append(out, sp)
		}
	}
	// a priority change addressed to a bar that has already been dropped from the container
	for _, rf := range []string{"auto", "manual"} {
		for _, lazy := range []bool{false, true} {
			sp := &Spec{Name: fmt.Sprintf("c02-prio-removed-%v", lazy), Refresh: rf, Q: -1}
			sp.Bars = []BarSpec{{Total: 3}, {Total: 3}, {Total: 3}}
			sp.Main = []Op{{K: "add", B: 0}, {K: "add", B: 1}, {K: "add", B: 2}}
			drop := []Op{{K: "abort", B: 2, F: true}, {K: "barwait", B: 2}}
			if rf == "manual" {
				drop = append(drop, Op{K: "refresh"}, Op{K: "refresh"}, Op{K: "refresh"}, Op{K: "refresh"})
			}
			drop = append(drop, Op{K: "prio", B: 2, N: 0, F: lazy}, Op{K: "prio", B: 1, N: 9, F: lazy})
			fin := []Op{{K: "incr", B: 0, N: 3}, {K: "incr", B: 1, N: 3}}
			if rf == "manual" {
				fin = append(fin, Op{K: "refresh"}, Op{K: "refresh"})
			}
			sp.Clients = [][]Op{append(drop, fin...)}
			sp.Late = c02Late
			out = append(out, sp)
		}
	}
	// n > q: the same late-call battery around a container whose request queue is always full
	for _, rf := range []string{"auto", "manual"} {
		sp := &Spec{Name: "c02-nq", Refresh: rf, Q: 0}
		sp.Bars = []BarSpec{{Total: 2}, {Total: 1}, {Total: 1}}
		sp.Main = []Op{{K: "add", B: 0}}
		ops := []Op{{K: "incr", B: 0, N: 1}, {K: "add", B: 1}, {K: "incr", B: 1, N: 1}, {K: "incr", B: 0, N: 1}}
		if rf == "manual" {
			ops = append(ops, Op{K: "refresh"}, Op{K: "refresh"})
		}
		sp.Clients = [][]Op{ops}
		sp.Late = c02Late
		out = append(out, sp)
	}
	return out
}

func init() {
	register(&Family{
		Property: "C02",
		Rule: "also (cross-family slice): the quick-tier programs of the other concurrent families (C03 C04 C05 C06 C12 C13 C14 C15 C17 C18; no pseudo terminals), with no deviation under every base strategy and one deviation under the first, judged by the verdict alone (no panic, no deadlock, starvation, livelock, runaway loop); " +
			"call histories of length 1..2 over the public Bar/Progress methods {Add, IncrBy, SetCurrent, SetTotal, EnableTriggerComplete, SetRefill, Abort(false/true), UpdateBarPriority, Progress.Write, getters, TraverseDecorators, ProxyReader, ProxyWriter, EwmaIncrInt64, DecoratorAverageAdjust} issued by one thread while a second thread issues the done event {ctx cancel, Shutdown, none} and main calls Wait, " +
			"so the bounded schedule search puts the container-done event at every position of the history; refresh {auto, none, manual}; then 18 late calls by main (among them an empty Write). " +
			"Oracle: no PANIC/DEADLOCK/LIVELOCK/STARVED verdict in any thread; every call returns; late Add = ErrDone, late Write = (0, ErrDone), late proxies = nil, late mutators leave the getters unchanged, bar not running.",
		Items: func(tier string) []Item {
			var items []Item
			if tier == "thorough" {
				var late []Op // the late battery without the Add of a third bar (the tiny programs have one bar slot)
				for _, o := range c02Late {
					if o.K != "add" {
						late = append(late, o)
					}
				}
				items = allItems("C02", c02Oracle, late, "incr-write", "cancel", "shutdown", "incr-abortdrop")
			}
			for _, sp := range c02Programs(tier) {
				if sp.Q == 0 {
					its := specItems("C02", sp, 1, allStrats, []string{"n>q"}, c02Oracle)
					for i := range its {
						its[i].Cfg = mcrt.Config{MaxSteps: 4000, FairAfter: 1500} // executions here have < 900 visible operations
					}
					items = append(items, its...)
					continue
				}
				items = append(items, specItems("C02", sp, 1, []int{mcrt.StratFIFO, mcrt.StratNewest}, nil, c02Oracle)...)
			}
			// the programs of the other concurrent families, judged by "no panic, nothing hangs" alone (cross.go)
			items = append(items, crossItems("C02", tier, judgeHang(true))...)
			return items
		},
	})
}
