package scen

import (
	"fmt"
	"regexp"
	"sort"
	"strings"

	"mcrt"
)

// C04: frames redraw in place: the terminal never shows stale or duplicated rows.
// C18: pop-completed mode leaves each finished bar on screen exactly once.

var reFrameStart = regexp.MustCompile(`\x1b\[\d+A\x1b\[J`)

// streamFrames splits a terminal stream into flushes (each begins with the cursor-up sequence, except
// the first and those following an empty frame).
func streamFrames(stream string) []OutWrite {
	var out []OutWrite
	idx := reFrameStart.FindAllStringIndex(stream, -1)
	start := 0
	for _, m := range idx {
		if m[0] > start {
			out = append(out, OutWrite{Data: stream[start:m[0]]})
		}
		start = m[0]
	}
	if start < len(stream) {
		out = append(out, OutWrite{Data: stream[start:]})
	}
	return out
}

func cleanLine(s string) string {
	s = strings.TrimRight(s, "\r\n")
	return strings.TrimRight(reEsc.ReplaceAllString(s, ""), " ")
}

type termReport struct {
	popOrder []int // bars in the order their popped rows were persisted
}

func termOracle(sp *Spec, x *X, writes []OutWrite, w, h int) (string, string, *termReport) {
	rep := &termReport{}
	t := NewTerm(w, h)
	var persisted []string
	term := map[int]int{}
	// a bar with another bar queued behind it hands its place over instead of being popped; a successor declared by
	// the program counts from the moment its Add was invoked (a bar queued behind an already popped bar changes nothing)
	succOf := map[int]int{}
	for i, bs := range sp.Bars {
		if bs.After > 0 {
			succOf[bs.After-1] = i
		}
	}
	succ := map[int]bool{}
	for fi, wr := range writes {
		if wr.Data == "!ERR" {
			continue
		}
		t.Write(wr.Data)
		f := ParseFrame(OutWrite{Data: strings.ReplaceAll(wr.Data, "\r\n", "\n")})
		for _, id := range f.BarIDs() {
			if r := f.Row(id); r.Flags != "R" {
				term[id]++
			}
		}
		for pred, sc := range succOf {
			if inv, _, added := addRet(x, sc); added && (wr.Step == 0 || inv < wr.Step) {
				succ[pred] = true
			}
		}
		var live []string
		nrows := 0
		for _, tx := range f.Text {
			persisted = append(persisted, cleanLine(tx))
		}
		lastPopped := -1
		for _, r := range f.Rows {
			nrows++
			popped := sp.Pop && r.Bar >= 0 && r.Bar < len(sp.Bars) && !sp.Bars[r.Bar].NoPop && !succ[r.Bar] && term[r.Bar] >= 3
			if popped {
				if len(live) > 0 {
					return "popped-below-live", fmt.Sprintf("frame %d: popped bar %d is drawn below live rows: %s", fi, r.Bar, f), rep
				}
				persisted = append(persisted, cleanLine(r.Raw))
				if r.Bar != lastPopped {
					rep.popOrder = append(rep.popOrder, r.Bar)
					lastPopped = r.Bar
				}
			} else {
				live = append(live, cleanLine(r.Raw))
			}
		}
		// (lines of text written through the container are meant to scroll away and are not part of the frame's height;
		// that they alone reach the scrollback is what the history comparison below checks)
		if h > 0 && nrows > h {
			return "frame-taller-than-terminal", fmt.Sprintf("frame %d has %d bar rows, the terminal %d rows", fi, nrows, h), rep
		}
		if t.Overflowed {
			return "row-wider-than-terminal", fmt.Sprintf("frame %d: a line wrapped on a %d column terminal: %q", fi, w, wr.Data), rep
		}
		want := append(append([]string{}, persisted...), live...)
		for len(want) > 0 && want[len(want)-1] == "" {
			want = want[:len(want)-1]
		}
		got := t.Lines()
		if strings.Join(got, "\n") != strings.Join(want, "\n") {
			k := 0
			for k < len(got) && k < len(want) && got[k] == want[k] {
				k++
			}
			g, wv := "<nothing>", "<nothing>"
			if k < len(got) {
				g = got[k]
			}
			if k < len(want) {
				wv = want[k]
			}
			return "screen-content", fmt.Sprintf("after frame %d line %d of the terminal history is %q, expected %q (history has %d lines, expected %d; %d persisted)", fi, k, g, wv, len(got), len(want), len(persisted)), rep
		}
		if len(t.Scrollback) > len(persisted) {
			return "bar-row-in-scrollback", fmt.Sprintf("after frame %d the scrollback holds %d lines but only %d lines are meant to persist: %q", fi, len(t.Scrollback), len(persisted), t.Scrollback[len(t.Scrollback)-1]), rep
		}
	}
	return "", "", rep
}

func c04Oracle(sp *Spec, x *X, res *mcrt.Result) (string, string) {
	if x.EventCount("pty-unavailable") > 0 {
		return "", ""
	}
	if x.WaitStep == 0 {
		return "wait-not-returned", "Progress.Wait did not return"
	}
	writes := x.Writes
	w, h := 80, 0
	if sp.Width > 0 {
		w = sp.Width
	}
	if sp.Pty {
		writes = streamFrames(x.Stream)
		w, h = sp.TermW, sp.TermH
	}
	if sp.Refresh == "none" && !sp.Pty {
		for i, wr := range writes {
			if strings.Contains(wr.Data, "\x1b") || reBar.MatchString(wr.Data) {
				return "output-without-refresh", fmt.Sprintf("write %d to a non-terminal without auto/manual refresh: %q", i, wr.Data)
			}
		}
		return "", ""
	}
	if sp.Delay {
		undelay := 0
		for _, c := range x.Calls {
			if c.Op == "undelay" {
				undelay = c.Inv
			}
		}
		for i, wr := range x.Writes {
			if undelay == 0 || wr.Step < undelay {
				return "write-before-delay-ended", fmt.Sprintf("write %d at step %d, render delay ended at step %d: %q", i, wr.Step, undelay, wr.Data)
			}
		}
	}
	k, d, rep := termOracle(sp, x, writes, w, h)
	if k == "" && !sp.Delay && x.FaultStep == 0 && sp.Refresh == "auto" {
		// the lines meant to persist are the lines that were written: what the frames carry as text, taken together,
		// is exactly what Progress.Write accepted before Wait returned (the closing render carries the last of it)
		var want, got []string
		for _, c := range x.Calls {
			if !strings.HasPrefix(c.Op, "write(") && !strings.HasPrefix(c.Op, "writebuf(") {
				continue
			}
			var text string
			fmt.Sscanf(c.Op[strings.Index(c.Op, "(")+1:len(c.Op)-1], "%q", &text)
			if c.Res == fmt.Sprintf("%d,nil", len(text)) && c.Inv < x.WaitStep {
				for _, l := range strings.Split(strings.TrimSuffix(text, "\n"), "\n") {
					want = append(want, l)
				}
			}
		}
		for _, wr := range writes {
			if wr.Data == "!ERR" {
				continue
			}
			f := ParseFrame(OutWrite{Data: strings.ReplaceAll(wr.Data, "\r\n", "\n")})
			for _, tx := range f.Text {
				got = append(got, cleanLine(tx))
			}
		}
		sort.Strings(want)
		sort.Strings(got)
		if strings.Join(want, "\n") != strings.Join(got, "\n") {
			return "persisted-text", fmt.Sprintf("lines written through the container: %q; lines the frames carry: %q", want, got)
		}
	}
	if k != "" && !(sp.Pop && sp.Delay) {
		// (pop mode under a render delay: cycles whose output was discarded advance a finished bar towards its pop
		// frame unseen, so the screen model, which counts the frames it sees, cannot tell a popped row from a live
		// one there; the clauses below, which do not depend on that count, still apply)
		return k, d
	}
	{
		// a bar that was added and is never drawn at all, although some frame drawn after its Add had room left
		height := 80
		if sp.Width > 0 {
			height = sp.Width
		}
		if sp.Pty {
			height = sp.TermH - 1
		}
		shown := map[int]bool{}
		room := map[int]bool{}
		for _, wr := range writes {
			f := ParseFrame(OutWrite{Data: strings.ReplaceAll(wr.Data, "\r\n", "\n")})
			for _, id := range f.BarIDs() {
				shown[id] = true
			}
			for b := range sp.Bars {
				if _, ret, ok := addRet(x, b); ok && wr.Step > 0 && ret < x.CycleStartOf(wr.Step) && len(f.Rows) < height {
					room[b] = true
				}
			}
		}
		for b, bs := range sp.Bars {
			if room[b] && !shown[b] && bs.After == 0 {
				return "bar-never-shown", fmt.Sprintf("bar %d was added, frames with fewer than %d rows were drawn afterwards, and it never appeared", b, height)
			}
		}
	}
	if sp.Pop {
		// popped bars in the order of finishing (first terminal frame); ties either way
		first := map[int]int{}
		for fi, wr := range writes {
			f := ParseFrame(OutWrite{Data: strings.ReplaceAll(wr.Data, "\r\n", "\n")})
			for _, id := range f.BarIDs() {
				if r := f.Row(id); r.Flags != "R" {
					if _, ok := first[id]; !ok {
						first[id] = fi
					}
				}
			}
		}
		for i := 0; i+1 < len(rep.popOrder); i++ {
			a, b := rep.popOrder[i], rep.popOrder[i+1]
			if first[a] > first[b] {
				return "pop-order", fmt.Sprintf("bar %d (finished in frame %d) was popped above bar %d (finished in frame %d)", a, first[a], b, first[b])
			}
		}
		seen := map[int]bool{}
		for _, b := range rep.popOrder {
			if seen[b] {
				return "popped-twice", fmt.Sprintf("bar %d was popped out twice", b)
			}
			seen[b] = true
		}
		if sp.Refresh == "manual" {
			// exact frames: a bar drawn finished is popped in the third frame that shows it finished; if that many
			// frames followed and it never was, it is lost
			nframes := len(writes)
			for b, bs := range sp.Bars {
				hasSucc := false
				for _, o := range sp.Bars {
					hasSucc = hasSucc || o.After == b+1
				}
				if fb, ok := first[b]; ok && !bs.NoPop && bs.After == 0 && !hasSucc && !seen[b] && nframes-fb > 3 {
					return "not-popped", fmt.Sprintf("bar %d was first drawn finished in frame %d of %d and never drawn popped", b, fb, nframes)
				}
			}
		}
		if sp.Refresh == "auto" {
			for b, bs := range sp.Bars {
				if _, _, ok := addRet(x, b); ok && !bs.NoPop && bs.After == 0 && !seen[b] {
					hasSucc := false
					for _, o := range sp.Bars {
						if o.After == b+1 {
							hasSucc = true
						}
					}
					if !hasSucc {
						return "not-popped", fmt.Sprintf("bar %d finished in pop mode but was never drawn popped (frames: %d)", b, len(writes))
					}
				}
			}
		}
	}
	return "", ""
}

func c04Programs(tier string) []*Spec {
	var out []*Spec
	type outp struct {
		pty  bool
		w, h int
	}
	// recorder (80 x endless) and ptys; rows of the programs below: 2..4
	outs := []outp{{false, 0, 0}, {true, 40, 8}, {true, 20, 5}, {true, 40, 3}}
	if tier == "thorough" {
		outs = append(outs, outp{true, 40, 4}, outp{true, 40, 2}, outp{true, 20, 6})
	}
	for _, o := range outs {
		for _, rf := range []string{"manual", "auto"} {
			mk := func(name string, f func(sp *Spec)) {
				sp := &Spec{Name: "c04-" + name, Refresh: rf, Q: -1, Pty: o.pty, TermW: o.w, TermH: o.h}
				if o.pty {
					sp.Width = 0
				}
				sp.Bars = []BarSpec{{Total: 2}, {Total: 2}}
				sp.Main = []Op{{K: "add", B: 0}, {K: "add", B: 1}}
				sp.Clients = [][]Op{completeOps(0, 2), completeOps(1, 2)}
				f(sp)
				if rf == "manual" {
					sp.Clients = append(sp.Clients, []Op{{K: "refresh"}, {K: "refresh"}, {K: "refresh"}, {K: "refresh"}})
				}
				out = append(out, sp)
			}
			mk("plain", func(sp *Spec) {})
			mk("ext", func(sp *Spec) { sp.Bars[0].ExtRows = 2; sp.Bars[1].ExtRows = 1; sp.Bars[1].ExtRev = true })
			mk("ext-unterminated", func(sp *Spec) {
				sp.Bars[0].ExtRows, sp.Bars[0].ExtNoNL = 1, true
				sp.Clients = append(sp.Clients, []Op{{K: "write", S: "a line of text\n"}})
			})
			mk("abortdrop", func(sp *Spec) { sp.Clients[1] = []Op{{K: "abort", B: 1, F: true}} })
			mk("rm", func(sp *Spec) { sp.Bars[0].Rm = true; sp.Bars[0].ExtRows = 1 })
			mk("write", func(sp *Spec) {
				sp.Clients = append(sp.Clients, []Op{{K: "write", S: "first line\n"}, {K: "write", S: "second line\nthird line\n"}})
			})
			mk("write-reused-buffer", func(sp *Spec) {
				// a logger that formats every line into one scratch buffer
				sp.Clients = append(sp.Clients, []Op{{K: "writebuf", S: "first-line-longest\n"}, {K: "writebuf", S: "second line\n"}, {K: "writebuf", S: "third\n"}})
			})
			mk("lateadd", func(sp *Spec) {
				sp.Bars = append(sp.Bars, BarSpec{Total: 1, ExtRows: 1})
				sp.Clients[0] = append([]Op{{K: "incr", B: 0, N: 1}, {K: "add", B: 2}, {K: "incr", B: 2, N: 1}}, sp.Clients[0][1:]...)
			})
			mk("pop", func(sp *Spec) { sp.Pop = true; sp.Bars[0].ExtRows = 1 })
			mk("pop-write", func(sp *Spec) {
				sp.Pop = true
				sp.Clients = append(sp.Clients, []Op{{K: "write", S: "note\n"}})
			})
			if !o.pty {
				mk("delay", func(sp *Spec) {
					sp.Delay = true
					sp.Clients = append(sp.Clients, []Op{{K: "undelay"}})
				})
				// the work is over before the render delay is: bars finish (or the container is cancelled) and Wait
				// returns while the delay is still pending; not a byte may have been written
				mk("delay-outlasts-the-bars", func(sp *Spec) { sp.Delay = true })
				mk("delay-outlasts-cancel", func(sp *Spec) {
					sp.Delay = true
					sp.Clients[1] = []Op{{K: "incr", B: 1, N: 1}, {K: "cancel"}}
				})
			}
		}
	}
	// non-terminal output, neither auto nor manual refresh: nothing but nothing
	sp := &Spec{Name: "c04-norefresh", Refresh: "none", Q: -1}
	sp.Bars = []BarSpec{{Total: 2}}
	sp.Main = []Op{{K: "add", B: 0}}
	sp.Clients = [][]Op{completeOps(0, 2), {{K: "write", S: "text\n"}}}
	out = append(out, sp)
	// bars at and above the terminal height
	for _, h := range []int{2, 3, 4} {
		for _, rf := range []string{"manual", "auto"} {
			sp := &Spec{Name: fmt.Sprintf("c04-tall-h%d", h), Refresh: rf, Q: -1, Pty: true, TermW: 30, TermH: h}
			for i := 0; i < 3; i++ {
				sp.Bars = append(sp.Bars, BarSpec{Total: 1})
				sp.Main = append(sp.Main, Op{K: "add", B: i})
				sp.Clients = append(sp.Clients, []Op{{K: "incr", B: i, N: 1}})
			}
			if rf == "manual" {
				sp.Clients = append(sp.Clients, []Op{{K: "refresh"}, {K: "refresh"}, {K: "refresh"}})
			}
			out = append(out, sp)
		}
	}
	// more rows than the terminal shows for several frames, then the bars at the bottom leave: the clipped bars at
	// the top become visible and must be drawn as single clean rows
	for _, rf := range []string{"manual", "auto"} {
		sp := &Spec{Name: "c04-tall-drop", Refresh: rf, Q: -1, Pty: true, TermW: 30, TermH: 3}
		for i := 0; i < 4; i++ {
			sp.Bars = append(sp.Bars, BarSpec{Total: 3})
			sp.Main = append(sp.Main, Op{K: "add", B: i})
		}
		r := func(ops []Op, k int) []Op {
			if rf == "manual" {
				for j := 0; j < k; j++ {
					ops = append(ops, Op{K: "refresh"})
				}
			}
			return ops
		}
		ops := r([]Op{{K: "incr", B: 0, N: 1}, {K: "incr", B: 1, N: 1}}, 3)
		ops = r(append(ops, Op{K: "abort", B: 2, F: true}, Op{K: "abort", B: 3, F: true}, Op{K: "barwait", B: 3}), 3)
		ops = r(append(ops, Op{K: "incr", B: 0, N: 2}, Op{K: "incr", B: 1, N: 2}), 3)
		sp.Clients = [][]Op{ops}
		out = append(out, sp)
	}
	// a decorator wider than the terminal: cut with an ellipsis, the row still fits
	for _, rf := range []string{"manual", "auto"} {
		sp := &Spec{Name: "c04-narrow-decor", Refresh: rf, Q: -1, Pty: true, TermW: 24, TermH: 6}
		sp.Bars = []BarSpec{{Total: 2, Pre: []DecorSpec{{Widths: []int{30}}}, App: []DecorSpec{{Widths: []int{5}}}}, {Total: 2, Pre: []DecorSpec{{Widths: []int{10}}}, App: []DecorSpec{{Widths: []int{20}}}}}
		sp.Main = []Op{{K: "add", B: 0}, {K: "add", B: 1}}
		sp.Clients = [][]Op{completeOps(0, 2), completeOps(1, 2)}
		if rf == "manual" {
			sp.Clients = append(sp.Clients, []Op{{K: "refresh"}, {K: "refresh"}, {K: "refresh"}, {K: "refresh"}})
		}
		out = append(out, sp)
	}
	return out
}

func c04Tags(sp *Spec) []string {
	if sp.Delay && sp.Pop {
		return []string{"pop+render-delay"}
	}
	if !sp.Pty {
		return nil
	}
	rows := 0
	for _, b := range sp.Bars {
		rows += 1 + b.ExtRows
	}
	if rows >= sp.TermH {
		return []string{"rows>=height"}
	}
	return nil
}

func c18Programs(tier string) []*Spec {
	var out []*Spec
	n := 2
	if tier == "thorough" {
		n = 3
	}
	perms := [][]int{{0, 1}, {1, 0}}
	if n == 3 {
		perms = [][]int{{0, 1, 2}, {0, 2, 1}, {1, 0, 2}, {1, 2, 0}, {2, 0, 1}, {2, 1, 0}}
	}
	type outp struct {
		pty  bool
		w, h int
	}
	for _, o := range []outp{{false, 0, 0}, {true, 40, 12}} {
		for _, rf := range []string{"manual", "auto"} {
			for _, variant := range []string{"plain", "ext", "nopop", "write", "same-cycle", "abort", "rm", "queued"} {
				for _, perm := range perms {
					if variant == "same-cycle" && perm[0] != 0 {
						continue
					}
					sp := &Spec{Name: fmt.Sprintf("c18-%s-%v", variant, perm), Refresh: rf, Q: -1, Pop: true, Pty: o.pty, TermW: o.w, TermH: o.h}
					for i := 0; i < n; i++ {
						bs := BarSpec{Total: 1}
						if variant == "ext" {
							bs.ExtRows = 1 + i%2
							bs.ExtRev = i%2 == 1
						}
						if variant == "nopop" && i == 0 {
							bs.NoPop = true
						}
						if variant == "rm" && i == 0 {
							bs.Rm = true // pop mode wins over remove-on-complete: the bar is popped and stays on screen
						}
						sp.Bars = append(sp.Bars, bs)
						sp.Main = append(sp.Main, Op{K: "add", B: i})
					}
					// a bar that keeps running while the others finish
					sp.Bars = append(sp.Bars, BarSpec{Total: 9})
					sp.Main = append(sp.Main, Op{K: "add", B: n})
					if variant == "queued" {
						// a successor queued behind bar 0 takes its place (it is not popped: it is still running)
						sp.Bars = append(sp.Bars, BarSpec{Total: 9, After: 1})
						sp.Main = append(sp.Main, Op{K: "add", B: n + 1})
					}
					var ops []Op
					for _, b := range perm {
						if variant == "abort" && b == 1 {
							ops = append(ops, Op{K: "abort", B: b})
						} else {
							ops = append(ops, Op{K: "incr", B: b, N: 1})
						}
						if rf == "manual" && variant != "same-cycle" {
							ops = append(ops, Op{K: "refresh"}, Op{K: "refresh"}, Op{K: "refresh"})
						}
						if variant == "write" {
							ops = append(ops, Op{K: "write", S: fmt.Sprintf("after bar %d\n", b)})
						}
					}
					ops = append(ops, Op{K: "incr", B: n, N: 9})
					if variant == "queued" {
						ops = append(ops, Op{K: "incr", B: n + 1, N: 9})
					}
					if rf == "manual" {
						ops = append(ops, Op{K: "refresh"}, Op{K: "refresh"}, Op{K: "refresh"}, Op{K: "refresh"})
					}
					sp.Clients = [][]Op{ops}
					out = append(out, sp)
				}
			}
		}
	}
	// a priority change addressed to a finished bar between the cycle that gives it its pop priority and the cycle
	// that pops it
	for _, rf := range []string{"manual"} {
		for _, k := range []int{1, 2, 3} {
			for _, how := range []string{"setprio", "prio", "priolazy"} {
				sp := &Spec{Name: fmt.Sprintf("c18-prio-window-%s-after%d", how, k), Refresh: rf, Q: -1, Pop: true}
				sp.Bars = []BarSpec{{Total: 1}, {Total: 9}, {Total: 9}}
				sp.Main = []Op{{K: "add", B: 0}, {K: "add", B: 1}, {K: "add", B: 2}}
				ops := []Op{{K: "incr", B: 0, N: 1}}
				for i := 0; i < k; i++ {
					ops = append(ops, Op{K: "refresh"})
				}
				chg := Op{K: how, B: 0, N: 7}
				if how == "priolazy" {
					chg = Op{K: "prio", B: 0, N: 7, F: true}
				}
				ops = append(ops, chg, Op{K: "refresh"}, Op{K: "refresh"}, Op{K: "refresh"}, Op{K: "incr", B: 1, N: 9}, Op{K: "incr", B: 2, N: 9}, Op{K: "refresh"}, Op{K: "refresh"}, Op{K: "refresh"}, Op{K: "refresh"})
				sp.Clients = [][]Op{ops}
				out = append(out, sp)
			}
		}
	}
	// a bar queued behind a bar that has already been popped (never started by the library as it is: a recorded finding
	// of C17); whatever becomes of it, the bars that finish later are still popped above everything that runs
	{
		sp := &Spec{Name: "c18-queued-behind-a-popped-bar", Refresh: "manual", Q: -1, Pop: true}
		sp.Bars = []BarSpec{{Total: 1}, {Total: 1}, {Total: 9}, {Total: 9, After: 1}}
		sp.Main = []Op{{K: "add", B: 0}, {K: "add", B: 1}, {K: "add", B: 2}, {K: "refresh"}, {K: "incr", B: 0, N: 1}, {K: "refresh"}, {K: "refresh"}, {K: "refresh"}, {K: "refresh"},
			{K: "add", B: 3}, {K: "refresh"}, {K: "refresh"}, {K: "incr", B: 1, N: 1}, {K: "refresh"}, {K: "refresh"}, {K: "refresh"}, {K: "refresh"},
			{K: "incr", B: 2, N: 9}, {K: "incr", B: 3, N: 9}, {K: "refresh"}, {K: "refresh"}, {K: "refresh"}, {K: "refresh"}}
		out = append(out, sp)
	}
	// a running bar pinned with a large negative priority stays below the popped bars all the same
	for _, rf := range []string{"manual", "auto"} {
		sp := &Spec{Name: "c18-negative-priority", Refresh: rf, Q: -1, Pop: true}
		sp.Bars = []BarSpec{{Total: 9, HasPrio: true, Prio: -1000}, {Total: 1}, {Total: 1}}
		sp.Main = []Op{{K: "add", B: 0}, {K: "add", B: 1}, {K: "add", B: 2}}
		var ops []Op
		for _, b := range []int{1, 2} {
			ops = append(ops, Op{K: "incr", B: b, N: 1})
			if rf == "manual" {
				ops = append(ops, Op{K: "refresh"}, Op{K: "refresh"}, Op{K: "refresh"})
			} else {
				ops = append(ops, Op{K: "barwait", B: b}, Op{K: "sleep", N: 250})
			}
		}
		ops = append(ops, Op{K: "incr", B: 0, N: 9})
		if rf == "manual" {
			ops = append(ops, Op{K: "refresh"}, Op{K: "refresh"}, Op{K: "refresh"}, Op{K: "refresh"})
		}
		sp.Clients = [][]Op{ops}
		out = append(out, sp)
	}
	// non-terminal output: the frame height is the container width; the frame that pops bar 0 is exactly that tall
	// (ten bars, three extender rows, width 13)
	{
		sp := &Spec{Name: "c18-frame-as-tall-as-width", Refresh: "manual", Q: -1, Pop: true, Width: 13}
		for i := 0; i < 10; i++ {
			bs := BarSpec{Total: 1}
			if i >= 7 {
				bs.ExtRows = 1
			}
			sp.Bars = append(sp.Bars, bs)
			sp.Main = append(sp.Main, Op{K: "add", B: i})
		}
		sp.Main = append(sp.Main, Op{K: "refresh"}, Op{K: "incr", B: 0, N: 1}, Op{K: "refresh"}, Op{K: "refresh"}, Op{K: "refresh"}, Op{K: "refresh"})
		for i := 1; i < 10; i++ {
			sp.Main = append(sp.Main, Op{K: "incr", B: i, N: 1})
		}
		sp.Main = append(sp.Main, Op{K: "refresh"}, Op{K: "refresh"}, Op{K: "refresh"}, Op{K: "refresh"})
		out = append(out, sp)
	}
	// a render delay that ends after a bar has finished
	for _, rf := range []string{"manual", "auto"} {
		sp := &Spec{Name: "c18-finished-during-render-delay", Refresh: rf, Q: -1, Pop: true, Delay: true}
		sp.Bars = []BarSpec{{Total: 1}, {Total: 9}}
		sp.Main = []Op{{K: "add", B: 0}, {K: "add", B: 1}}
		ops := []Op{{K: "incr", B: 0, N: 1}}
		if rf == "manual" {
			ops = append(ops, Op{K: "refresh"}, Op{K: "refresh"}, Op{K: "refresh"}, Op{K: "refresh"}, Op{K: "undelay"}, Op{K: "refresh"}, Op{K: "refresh"}, Op{K: "refresh"}, Op{K: "incr", B: 1, N: 9}, Op{K: "refresh"}, Op{K: "refresh"}, Op{K: "refresh"}, Op{K: "refresh"})
		} else {
			ops = append(ops, Op{K: "sleep", N: 450}, Op{K: "undelay"}, Op{K: "sleep", N: 350}, Op{K: "incr", B: 1, N: 9})
		}
		sp.Clients = [][]Op{ops}
		out = append(out, sp)
	}
	for _, ms := range []int64{50, 150, 250, 350} {
		// auto refresh every 100 ms of virtual time: the change lands in each of the windows after the completion
		sp := &Spec{Name: fmt.Sprintf("c18-prio-window-auto-%dms", ms), Refresh: "auto", Q: -1, Pop: true}
		sp.Bars = []BarSpec{{Total: 1}, {Total: 9}, {Total: 9}}
		sp.Main = []Op{{K: "add", B: 0}, {K: "add", B: 1}, {K: "add", B: 2}}
		sp.Clients = [][]Op{{{K: "incr", B: 0, N: 1}, {K: "sleep", N: ms}, {K: "setprio", B: 0, N: 7}, {K: "sleep", N: 400}, {K: "incr", B: 1, N: 9}, {K: "incr", B: 2, N: 9}}}
		out = append(out, sp)
	}
	return out
}

func init() {
	register(&Family{
		Property: "C04",
		Rule: "also: a render delay that outlasts the bars or a cancel (no byte before the delay ends even when the container ends first), a writer that reuses its buffer, and the clause that the text lines the frames carry are exactly the lines Progress.Write accepted; " +
			"frame sequences from programs over {plain, extender rows below/above, abort+drop, remove-on-complete, Progress.Write of 1..3 lines, a bar added late, pop mode, pop mode + text, render delay} in manual and auto refresh, written to (i) a recorder interpreted on a virtual terminal of the container width and endless height and (ii) real pseudo terminals (cwriter's terminal path: size from the fd) of 40x8, 20x5 and 40x3 (thorough also 40x4, 40x2, 20x6), plus three bars on terminals of height 2, 3, 4 (below, at, above the row count); every schedule within the deviation bound. " +
			"Oracle: the output stream is interpreted by an ANSI terminal emulator (CUU, ED, CR/LF, deferred wrap, scrollback); after every flush the terminal's whole history must equal the lines meant to persist (text written, popped bars, once, in order) followed by the rows of the current frame; the scrollback may hold persisted lines only; no line wraps; no frame is taller than the terminal; nothing is written before the render delay ends; a non-terminal without refresh receives no rows or cursor controls.",
		Items: func(tier string) []Item {
			var items []Item
			for _, sp := range c04Programs(tier) {
				bound := 1
				if sp.Refresh == "manual" && tier != "thorough" {
					bound = 0
				}
				if tier == "thorough" && !sp.Pty {
					bound = 2
				}
				strats := []int{mcrt.StratFIFO}
				if !sp.Pty || tier == "thorough" {
					strats = allStrats
				}
				items = append(items, specItems("C04", sp, bound, strats, c04Tags(sp), c04Oracle)...)
			}
			return items
		},
	})
	register(&Family{
		Property: "C18",
		Rule: "also: a bar queued behind an already popped bar (a declared successor counts only from the moment its Add was invoked); " +
			"pop-completed mode: 2 (thorough 3) bars finishing in every order, in the same cycle, with extender rows, with a no-pop bar, with text written in between, with an abort, next to a bar that keeps running, with a priority change addressed to the finished bar in each window between its completion and its pop; manual (exact frames) and auto refresh; recorder on an endless virtual terminal and a 40x12 pseudo terminal; every schedule within the deviation bound. " +
			"Oracle (terminal emulator): a popped bar is drawn above all live rows, from then on its rows are in the terminal history exactly once and unchanged (history == persisted lines ++ live rows after every flush), popped bars are ordered by the frame in which they finished, none is popped twice, every finished poppable bar is eventually popped (auto refresh), no-pop bars stay in the live region.",
		Items: func(tier string) []Item {
			var items []Item
			for _, sp := range c18Programs(tier) {
				bound := 1
				if sp.Pty && tier != "thorough" {
					bound = 0
				}
				items = append(items, specItems("C18", sp, bound, []int{mcrt.StratFIFO, mcrt.StratNewest}, c04Tags(sp), c04Oracle)...)
			}
			if tier == "thorough" {
				// the two-bar programs of the quick tier once more, one deviation deeper (recorder output)
				for _, sp := range c18Programs("quick") {
					if !sp.Pty && !strings.Contains(sp.Name, "prio-window-auto") && len(sp.Bars) <= 4 {
						items = append(items, specItems("C18", sp, 2, []int{mcrt.StratFIFO, mcrt.StratNewest}, c04Tags(sp), c04Oracle)...)
					}
				}
			}
			return items
		},
	})
}
