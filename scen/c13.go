package scen

import (
	"fmt"
	"regexp"
	"strings"

	"mcrt"
)

// C13: text written through the container appears once, in order, above the bars.

var reEsc = regexp.MustCompile(`\x1b\[[0-9;]*[A-Za-z]`)

func c13Oracle(sp *Spec, x *X, res *mcrt.Result) (string, string) {
	if x.WaitStep == 0 {
		return "wait-not-returned", "Progress.Wait did not return"
	}
	var all strings.Builder
	offsets := make([]int, len(x.Writes)+1)
	for i, w := range x.Writes {
		offsets[i] = all.Len()
		if w.Data != "!ERR" {
			all.WriteString(reEsc.ReplaceAllString(w.Data, ""))
		}
	}
	offsets[len(x.Writes)] = all.Len()
	out := all.String()
	type wr struct {
		c    Call
		text string
		pos  int
	}
	var ws []wr
	// how often each text was written successfully (a program may write the same line twice); -1 = some write of that
	// text lies outside the property, so its count is not checked
	expect := map[string]int{}
	var exact strings.Builder
	for _, c := range x.Calls {
		if !strings.HasPrefix(c.Op, "write(") && !strings.HasPrefix(c.Op, "writebuf(") {
			continue
		}
		var text string
		fmt.Sscanf(c.Op[strings.Index(c.Op, "(")+1:len(c.Op)-1], "%q", &text)
		if c.Res != fmt.Sprintf("%d,nil", len(text)) || c.Inv >= x.WaitStep {
			continue
		}
		if x.FaultStep > 0 && c.Inv <= x.FaultStep {
			expect[text] = -1
		} else if expect[text] >= 0 {
			expect[text]++
			exact.WriteString(text)
		}
	}
	if strings.Contains(sp.Name, "exact-bytes") && out != exact.String() {
		// a container without bars, one writer: the output (escape sequences removed) is the written bytes, nothing else
		return "bytes-modified", fmt.Sprintf("written %q, output %q", exact.String(), out)
	}
	for _, c := range x.Calls {
		if !strings.HasPrefix(c.Op, "write(") && !strings.HasPrefix(c.Op, "writebuf(") {
			continue
		}
		var text string
		fmt.Sscanf(c.Op[strings.Index(c.Op, "(")+1:len(c.Op)-1], "%q", &text)
		n := strings.Count(out, text)
		if text == "" {
			n = 0 // an empty Write has nothing to emit; only its result is checked
		}
		late := c.Inv >= x.WaitStep
		switch {
		case c.Ret == 0:
			return "write-blocked", fmt.Sprintf("Progress.Write(%q) never returned", text)
		case c.Res == fmt.Sprintf("%d,nil", len(text)):
			if x.FaultStep > 0 && c.Inv <= x.FaultStep {
				continue // accepted before the render error: outside the property (section 11)
			}
			if late {
				return "late-write-accepted", fmt.Sprintf("Write(%q) began after Wait returned and reported success", text)
			}
			if want := expect[text]; want >= 0 && n != want {
				return "write-count", fmt.Sprintf("Write(%q) reported success %d time(s); its text occurs %d times in the output", text, want, n)
			}
			pos := strings.Index(out, text)
			if expect[text] == 1 {
				ws = append(ws, wr{c, text, pos})
			}
			// which output write carries it, and where inside that frame
			k := 0
			for k+1 < len(offsets) && offsets[k+1] <= pos {
				k++
			}
			if k >= x.WritesAtWait {
				return "write-after-wait", fmt.Sprintf("text %q was emitted by output write %d, after Wait returned (%d writes before)", text, k, x.WritesAtWait)
			}
			f := ParseFrame(x.Writes[k])
			found := false
			for _, t := range f.Text {
				if strings.Contains(t, strings.TrimSuffix(text, "\n")) {
					found = true
				}
			}
			if !found {
				return "write-not-above-bars", fmt.Sprintf("text %q is not above the bar rows of its frame %q", text, x.Writes[k].Data)
			}
		case c.Res == "0,ErrDone":
			if n != 0 {
				return "failed-write-emitted", fmt.Sprintf("Write(%q) returned ErrDone but its text occurs %d times in the output", text, n)
			}
		default:
			return "write-result", fmt.Sprintf("Write(%q) returned %s", text, c.Res)
		}
		if late && c.Res != "0,ErrDone" {
			return "late-write-result", fmt.Sprintf("Write(%q) after Wait returned %s, want (0, ErrDone)", text, c.Res)
		}
	}
	for i := range ws {
		for j := range ws {
			if ws[i].c.Ret <= ws[j].c.Inv && ws[i].pos > ws[j].pos {
				return "write-order", fmt.Sprintf("Write(%q) returned before Write(%q) was invoked but its text comes later", ws[i].text, ws[j].text)
			}
		}
	}
	// rows are intact: every bar row line still parses (text never lands inside a row)
	for i, w := range x.Writes {
		f := ParseFrame(w)
		for _, r := range f.Rows {
			if r.Bar < 0 {
				return "row-corrupted", fmt.Sprintf("frame %d has an unparsable line below the first bar row: %q", i, r.Raw)
			}
		}
	}
	return "", ""
}

func c13Programs(tier string) []*Spec {
	var out []*Spec
	long := strings.Repeat("L", 299) + "\n"
	lines := [][]string{{"alpha\n"}, {"alpha\n", "bravo-bravo-bravo-bravo-bravo-bravo-40c\n"}, {long}}
	for _, nb := range []int{1, 2} {
		for wi, w1 := range lines {
			for _, two := range []bool{false, true} {
				if two && wi == 2 && tier == "quick" {
					continue
				}
				sp := &Spec{Name: fmt.Sprintf("c13-b%d-w%d-%v", nb, wi, two), Refresh: "auto", Q: -1}
				for i := 0; i < nb; i++ {
					sp.Bars = append(sp.Bars, BarSpec{Total: 2})
					sp.Main = append(sp.Main, Op{K: "add", B: i})
					sp.Clients = append(sp.Clients, completeOps(i, 2))
				}
				var ops []Op
				for _, l := range w1 {
					ops = append(ops, Op{K: "write", S: l})
				}
				sp.Clients = append(sp.Clients, ops)
				if two {
					sp.Clients = append(sp.Clients, []Op{{K: "write", S: "second-writer-1\n"}, {K: "write", S: "second-writer-2\n"}})
				}
				sp.Late = []Op{{K: "write", S: "too-late\n"}, {K: "write", S: ""}}
				out = append(out, sp)
			}
		}
	}
	// text written when no bar is (any longer) in the container, and a writer that reuses its buffer
	for _, v := range []string{"nobars", "after-removed", "reused-buffer"} {
		sp := &Spec{Name: "c13-" + v, Refresh: "auto", Q: -1}
		switch v {
		case "nobars":
			sp.Clients = [][]Op{{{K: "write", S: "solo-alpha\n"}, {K: "write", S: "solo-bravo\n"}}}
		case "after-removed":
			sp.Bars = []BarSpec{{Total: 1, Rm: true}}
			sp.Main = []Op{{K: "add", B: 0}}
			sp.Clients = [][]Op{{{K: "incr", B: 0, N: 1}, {K: "barwait", B: 0}, {K: "write", S: "left-alpha\n"}, {K: "write", S: "left-bravo\n"}}}
		case "reused-buffer":
			sp.Bars = []BarSpec{{Total: 2}}
			sp.Main = []Op{{K: "add", B: 0}}
			sp.Clients = [][]Op{completeOps(0, 2), {{K: "writebuf", S: "scratch-alpha-long\n"}, {K: "writebuf", S: "scratch-bravo\n"}, {K: "writebuf", S: "s-charlie\n"}}}
		}
		sp.Late = []Op{{K: "write", S: "too-late\n"}, {K: "write", S: ""}}
		out = append(out, sp)
	}
	// a render error ends the container: text written after it must not be accepted and then dropped
	for _, rf := range []string{"auto", "manual"} {
		sp := &Spec{Name: "c13-after-render-error", Refresh: rf, Q: -1}
		sp.Bars = []BarSpec{{Total: 5, FillErrAt: 2}}
		sp.Main = []Op{{K: "add", B: 0}}
		w := []Op{{K: "write", S: "err-alpha\n"}, {K: "write", S: "err-bravo\n"}, {K: "write", S: "err-charlie\n"}, {K: "write", S: "err-delta\n"}}
		c := []Op{{K: "incr", B: 0, N: 1}}
		if rf == "manual" {
			c = append(c, Op{K: "refresh"}, Op{K: "refresh"}, Op{K: "refresh"})
		}
		sp.Clients = [][]Op{c, w}
		sp.Late = []Op{{K: "write", S: "too-late\n"}, {K: "write", S: ""}}
		out = append(out, sp)
	}
	// render delay: once the delay is over and frames are being written, text goes out like anywhere else
	{
		sp := &Spec{Name: "c13-after-render-delay", Refresh: "auto", Q: -1, Delay: true}
		sp.Bars = []BarSpec{{Total: 1}, {Total: 2}}
		sp.Main = []Op{{K: "add", B: 0}, {K: "add", B: 1}}
		// Bar.Wait on bar 0 returns only after it was rendered finished: rendering has started by then
		sp.Clients = [][]Op{{{K: "undelay"}, {K: "incr", B: 0, N: 1}, {K: "barwait", B: 0}, {K: "write", S: "delay-alpha\n"}, {K: "write", S: "delay-bravo\n"}, {K: "incr", B: 1, N: 2}}}
		sp.Late = []Op{{K: "write", S: "too-late\n"}, {K: "write", S: ""}}
		out = append(out, sp)
	}
	// the same line written twice with a frame in between while the bar rows do not change (two equal frames in a row)
	for _, rf := range []string{"manual", "auto"} {
		sp := &Spec{Name: "c13-same-line-twice", Refresh: rf, Q: -1}
		sp.Bars = []BarSpec{{Total: 1}}
		sp.Main = []Op{{K: "add", B: 0}}
		if rf == "manual" {
			sp.Main = append(sp.Main, Op{K: "refresh"}, Op{K: "write", S: "again\n"}, Op{K: "refresh"}, Op{K: "write", S: "again\n"}, Op{K: "refresh"},
				Op{K: "write", S: "again\n"}, Op{K: "write", S: "again\n"}, Op{K: "refresh"}, Op{K: "incr", B: 0, N: 1}, Op{K: "refresh"}, Op{K: "refresh"})
			sp.Clients = [][]Op{{{K: "refresh"}}}
		} else {
			sp.Clients = [][]Op{{{K: "write", S: "again\n"}, {K: "sleep", N: 250}, {K: "write", S: "again\n"}, {K: "sleep", N: 250}, {K: "incr", B: 0, N: 1}}}
		}
		sp.Late = []Op{{K: "write", S: "too-late\n"}}
		out = append(out, sp)
	}
	// a line written in two pieces with a frame in between, in a container without bars: the output is those bytes
	for _, rf := range []string{"manual", "auto"} {
		sp := &Spec{Name: "c13-exact-bytes-nobars", Refresh: rf, Q: -1}
		if rf == "manual" {
			sp.Main = []Op{{K: "write", S: "one\n"}, {K: "refresh"}, {K: "write", S: "alp"}, {K: "refresh"}, {K: "write", S: "ha\n"}, {K: "refresh"}, {K: "write", S: "x"}, {K: "write", S: "y\n"}, {K: "refresh"}}
			sp.Clients = [][]Op{{{K: "refresh"}}}
		} else {
			sp.Clients = [][]Op{{{K: "write", S: "one\n"}, {K: "sleep", N: 250}, {K: "write", S: "alp"}, {K: "sleep", N: 250}, {K: "write", S: "ha\n"}, {K: "sleep", N: 250}}}
		}
		out = append(out, sp)
	}
	// manual refresh with a final client refresh after the last write (main refreshes before Wait)
	sp := &Spec{Name: "c13-manual", Refresh: "manual", Q: -1}
	sp.Bars = []BarSpec{{Total: 1}}
	sp.Main = []Op{{K: "add", B: 0}, {K: "write", S: "m-one\n"}, {K: "refresh"}, {K: "write", S: "m-two\n"}, {K: "incr", B: 0, N: 1}, {K: "refresh"}, {K: "refresh"}}
	sp.Clients = [][]Op{{{K: "refresh"}}}
	sp.Late = []Op{{K: "write", S: "too-late\n"}, {K: "write", S: ""}}
	out = append(out, sp)
	return out
}

func init() {
	register(&Family{
		Property: "C13",
		Rule: "also: the same line written twice with a frame in between while the bar rows stand still; a line written in pieces in a container without bars (output == bytes written); " +
			"auto-refresh programs: 1..2 bars completing x writer threads {1,2} x lines {one short, short+40 columns, 300 bytes}, one Write after Wait; one manual-refresh program whose client refreshes after its last write. Every schedule within the deviation bound (Write vs render cycle, completion, final render, shutdown). " +
			"Oracle on the concatenated output with escape sequences removed: each successful line exactly once, order consistent with real-time order of the calls, inside its frame above the first bar row, carried by a write not later than the last one before Wait returned; failed writes emit nothing; Write after Wait = (0, ErrDone); every bar row still parses.",
		Items: func(tier string) []Item {
			var items []Item
			bound := 1
			if tier == "thorough" {
				bound = 2
			}
			for _, sp := range c13Programs(tier) {
				items = append(items, specItems("C13", sp, bound, allStrats, nil, c13Oracle)...)
			}
			return items
		},
	})
}
