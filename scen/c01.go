package scen

import (
	"fmt"

	"mcrt"
)

// ---------------------------------------------------------------------------
// C01: Wait returns once every bar has finished, under every schedule.

func completeOps(b int, total int64) []Op {
	if total <= 0 {
		return []Op{{K: "incr", B: b, N: 1}, {K: "settotal", B: b, N: -1, F: true}}
	}
	if total == 1 {
		return []Op{{K: "incr", B: b, N: 1}}
	}
	return []Op{{K: "incr", B: b, N: 1}, {K: "incr", B: b, N: total - 1}}
}

func syncD(widths ...int) DecorSpec { return DecorSpec{Sync: true, Widths: widths} }

func c01Programs(tier string) []*Spec {
	var out []*Spec
	add := func(sp *Spec) { out = append(out, sp) }
	refreshes := []string{"auto", "manual", "none"}
	qs := []int{-1, 0, 1}
	for _, rf := range refreshes {
		for _, q := range qs {
			for n := 0; n <= 2; n++ {
				for _, layout := range []string{"plain", "sync", "uneven"} {
					if n == 0 && layout != "plain" {
						continue
					}
					if n == 1 && layout == "uneven" {
						continue
					}
					if tier == "quick" && q == 1 && layout == "plain" {
						continue
					}
					sp := &Spec{Name: "c01-" + layout, Refresh: rf, Q: q}
					for i := 0; i < n; i++ {
						bs := BarSpec{Total: 2}
						switch layout {
						case "sync":
							bs.Pre = []DecorSpec{syncD(1, 3)}
						case "uneven":
							if i == 0 {
								bs.Pre = []DecorSpec{syncD(1, 3), syncD(2)}
							} else {
								bs.Pre = []DecorSpec{syncD(2, 1)}
								bs.App = []DecorSpec{syncD(1)}
							}
						}
						sp.Bars = append(sp.Bars, bs)
						sp.Main = append(sp.Main, Op{K: "add", B: i})
						ops := completeOps(i, 2)
						if rf == "manual" {
							ops = append(ops, Op{K: "refresh"}, Op{K: "refresh"})
						}
						sp.Clients = append(sp.Clients, ops)
					}
					add(sp)
					if rf == "manual" && q == -1 && n == 2 && layout != "uneven" {
						// WithAutoRefresh() given together with WithManualRefresh: manual wins, bars must still end on
						// their own; here the bars finish without any refresh request afterwards
						sp2 := *sp
						sp2.AutoOpt = true
						sp2.Clients = [][]Op{completeOps(0, 2), completeOps(1, 2)}
						add(&sp2)
						sp3 := *sp
						sp3.AutoOpt = true
						add(&sp3)
					}
				}
			}
		}
	}
	// WithWaitGroup: a client counted in the user's wait group ends only when the container has shut down (it consumes
	// the shutdown notifier's value); Wait must shut the container down before it joins the user's wait group
	for _, rf := range refreshes {
		sp := &Spec{Name: "c01-user-waitgroup", Refresh: rf, Q: -1, UWG: true, Notifier: true, NotifyByClient: true}
		sp.Bars = []BarSpec{{Total: 2}}
		sp.Main = []Op{{K: "add", B: 0}}
		// (no refresh requests from the clients: a client blocked handing a request to a container that has shut down
		// would keep the user's wait group, and with it Wait, from ever finishing: the program's own deadlock)
		sp.Clients = [][]Op{completeOps(0, 2), {{K: "recvnotify"}}}
		add(sp)
	}
	// variants: abort, remove-on-complete, pop mode, priority change, Progress.Write, cancel
	for _, rf := range refreshes {
		for _, q := range []int{-1, 0} {
			mk := func(name string, f func(sp *Spec)) {
				sp := &Spec{Name: "c01-" + name, Refresh: rf, Q: q}
				sp.Bars = []BarSpec{{Total: 2, Pre: []DecorSpec{syncD(2, 1)}}, {Total: 2, Pre: []DecorSpec{syncD(1, 3)}}}
				sp.Main = []Op{{K: "add", B: 0}, {K: "add", B: 1}}
				sp.Clients = [][]Op{completeOps(0, 2), completeOps(1, 2)}
				f(sp)
				if rf == "manual" {
					for i := range sp.Clients {
						sp.Clients[i] = append(sp.Clients[i], Op{K: "refresh"}, Op{K: "refresh"})
					}
				}
				add(sp)
			}
			mk("abort", func(sp *Spec) { sp.Clients[1] = []Op{{K: "incr", B: 1, N: 1}, {K: "abort", B: 1}} })
			mk("abortdrop", func(sp *Spec) { sp.Clients[1] = []Op{{K: "abort", B: 1, F: true}, {K: "barwait", B: 1}} })
			mk("rm", func(sp *Spec) { sp.Bars[0].Rm = true })
			mk("pop", func(sp *Spec) { sp.Pop = true })
			mk("prio", func(sp *Spec) { sp.Clients[0] = append([]Op{{K: "prio", B: 0, N: 5}}, sp.Clients[0]...) })
			mk("write", func(sp *Spec) { sp.Clients = append(sp.Clients, []Op{{K: "write", S: "hello\n"}}) })
			mk("cancel", func(sp *Spec) { sp.Clients[1] = []Op{{K: "incr", B: 1, N: 1}, {K: "cancel"}} })
			mk("queued", func(sp *Spec) {
				// a successor queued behind bar 1 (bar 0 was added first, so it is re-pushed after the successor)
				sp.Bars = append(sp.Bars, BarSpec{Total: 1, After: 2, Pre: []DecorSpec{syncD(4, 2)}})
				sp.Main = append(sp.Main, Op{K: "add", B: 2})
				sp.Clients = append(sp.Clients, []Op{{K: "incr", B: 2, N: 1}})
			})
			mk("barwait", func(sp *Spec) { sp.Clients = append(sp.Clients, []Op{{K: "barwait", B: 0}, {K: "barwait", B: 1}}) })
			if tier != "quick" {
				mk("unknown-total", func(sp *Spec) {
					sp.Bars[0].Total = 0
					sp.Clients[0] = completeOps(0, 0)
				})
				mk("add-late", func(sp *Spec) {
					sp.Bars = append(sp.Bars, BarSpec{Total: 1, Pre: []DecorSpec{syncD(4)}})
					sp.Clients[0] = append([]Op{{K: "add", B: 2}, {K: "incr", B: 2, N: 1}}, sp.Clients[0]...)
				})
			}
		}
	}
	return out
}

func c01Oracle(sp *Spec, x *X, res *mcrt.Result) (string, string) {
	if x.WaitStep == 0 {
		return "wait-not-returned", "Progress.Wait did not return"
	}
	for _, c := range x.Calls {
		if c.Ret == 0 {
			return "call-blocked", fmt.Sprintf("client %d call %s never returned", c.Client, c.Op)
		}
	}
	return "", ""
}

func init() {
	register(&Family{
		Property: "C01",
		Rule: "also (cross-family slice): the quick-tier programs of the other concurrent families (C03 C04 C05 C06 C12 C13 C14 C15 C17 C18; no pseudo terminals), with no deviation under every base strategy and one deviation under the first, judged by the verdict alone (no deadlock, starvation, livelock); " +
			"programs = refresh{auto,manual,none} x queue length{default,0,1} x bars{0,1,2(+1 late)} x sync layouts{plain, one column, unequal column heights} " +
			"plus variants (abort, abort+drop, remove-on-complete, pop mode, priority change, Progress.Write, cancel, Bar.Wait); all bars terminate. " +
			"For each program every schedule within the deviation bound under three base strategies. Non-trivial = an execution with at least one choice point that had two or more alternatives; distinct = distinct observation records (frames, call results, verdict).",
		Items: func(tier string) []Item {
			var items []Item
			for _, sp := range c01Programs(tier) {
				bound := 1
				if tier == "thorough" {
					bound = 2
				}
				tags := []string{}
				if sp.Q >= 0 && len(sp.Bars) > sp.Q {
					tags = append(tags, "n>q")
				}
				items = append(items, specItems("C01", sp, bound, allStrats, tags, c01Oracle)...)
			}
			if tier == "thorough" {
				items = append(allItems("C01", c01Oracle, nil, "empty", "incr", "incr-abort", "incr-abortdrop", "cancel", "shutdown", "incr-write", "incr-getters", "two", "two-steps", "incr-refresh"), items...)
			}
			// the programs of the other concurrent families, judged by "everything returned" alone (cross.go)
			items = append(items, crossItems("C01", tier, judgeHang(false))...)
			return items
		},
	})
}
