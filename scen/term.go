package scen

import (
	"strings"

	"github.com/mattn/go-runewidth"
)

// Term is a small ANSI terminal emulator: exactly the subset cwriter emits
// (CUU, ED, SGR ignored, CR, LF, printable runes with display widths), xterm's
// deferred wrap, and an explicit scrollback.
type Term struct {
	W, H       int // H <= 0: unbounded height (a captured stream replayed on an endless page)
	rows       [][]rune
	Scrollback []string
	r, c       int
	wrapNext   bool
	Overflowed bool // a printable rune was placed by wrapping (line longer than W)
}

func NewTerm(w, h int) *Term {
	t := &Term{W: w, H: h}
	t.rows = [][]rune{nil}
	return t
}

func (t *Term) lineString(r []rune) string { return strings.TrimRight(string(r), " ") }

func (t *Term) newline() {
	t.r++
	if t.H > 0 && t.r >= t.H {
		// scroll: the top line leaves the screen
		t.Scrollback = append(t.Scrollback, t.lineString(t.rows[0]))
		t.rows = t.rows[1:]
		t.r = t.H - 1
	}
	for len(t.rows) <= t.r {
		t.rows = append(t.rows, nil)
	}
}

func (t *Term) put(ch rune) {
	w := runewidth.RuneWidth(ch)
	if w == 0 {
		// combining: attach to previous cell (kept in the same slot by appending)
		if t.c > 0 && t.c-1 < len(t.rows[t.r]) {
			t.rows[t.r] = append(t.rows[t.r][:t.c], append([]rune{ch}, t.rows[t.r][t.c:]...)...)
			t.c++
		}
		return
	}
	if t.W > 0 && (t.wrapNext || t.c+w > t.W) {
		t.Overflowed = true
		t.c = 0
		t.wrapNext = false
		t.newline()
	}
	row := t.rows[t.r]
	for len(row) < t.c {
		row = append(row, ' ')
	}
	if t.c < len(row) {
		row = row[:t.c]
	}
	row = append(row, ch)
	t.rows[t.r] = row
	t.c++
	// a wide rune occupies two columns; rows are rune slices, so track columns separately through width sums
	if w == 2 {
		t.rows[t.r] = append(t.rows[t.r], 0) // placeholder cell
		t.c++
	}
	if t.W > 0 && t.c >= t.W {
		t.wrapNext = true
	}
}

// Write interprets a chunk of the output stream.
func (t *Term) Write(s string) {
	rs := []rune(s)
	for i := 0; i < len(rs); i++ {
		ch := rs[i]
		switch {
		case ch == 0x1b && i+1 < len(rs) && rs[i+1] == '[':
			j := i + 2
			n := 0
			has := false
			for j < len(rs) && (rs[j] >= '0' && rs[j] <= '9' || rs[j] == ';') {
				if rs[j] != ';' {
					n = n*10 + int(rs[j]-'0')
					has = true
				}
				j++
			}
			if j >= len(rs) {
				return
			}
			switch rs[j] {
			case 'A':
				if !has || n == 0 {
					n = 1
				}
				t.r -= n
				if t.r < 0 {
					t.r = 0
				}
				t.wrapNext = false
			case 'J':
				// erase from the cursor to the end of the screen
				if t.c < len(t.rows[t.r]) {
					t.rows[t.r] = t.rows[t.r][:t.c]
				}
				t.rows = t.rows[:t.r+1]
			case 'm':
			}
			i = j
		case ch == '\n':
			t.c = 0 // ONLCR: the tty turns LF into CR LF; a captured stream is replayed the same way
			t.wrapNext = false
			t.newline()
		case ch == '\r':
			t.c = 0
			t.wrapNext = false
		default:
			t.put(ch)
		}
	}
}

// Lines returns the whole history: scrollback followed by the screen, without trailing empty lines.
func (t *Term) Lines() []string {
	out := append([]string{}, t.Scrollback...)
	for _, r := range t.rows {
		out = append(out, strings.ReplaceAll(t.lineString(r), "\x00", ""))
	}
	for len(out) > 0 && out[len(out)-1] == "" {
		out = out[:len(out)-1]
	}
	return out
}

func (t *Term) ScreenTop() int { return len(t.Scrollback) }
