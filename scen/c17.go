package scen

import (
	"fmt"
	"strings"

	"mcrt"
)

// C17: a bar queued after another always gets its turn.

func indexOf(ids []int, b int) int {
	for i, id := range ids {
		if id == b {
			return i
		}
	}
	return -1
}

func c17Oracle(sp *Spec, x *X, res *mcrt.Result) (string, string) {
	if x.WaitStep == 0 {
		return "wait-not-returned", "Progress.Wait did not return"
	}
	for _, c := range x.Calls {
		if c.Ret == 0 {
			return "call-blocked", fmt.Sprintf("call %s of client %d never returned", c.Op, c.Client)
		}
	}
	frames := x.Frames()
	for s, bs := range sp.Bars {
		if bs.After == 0 {
			continue
		}
		p := bs.After - 1
		_, sRet, added := addRet(x, s)
		if !added {
			continue
		}
		lastP, firstS := -1, -1
		for i, f := range frames {
			ids := f.BarIDs()
			ip, is := indexOf(ids, p), indexOf(ids, s)
			if ip >= 0 && is >= 0 {
				return "successor-with-predecessor", fmt.Sprintf("frame %d shows bar %d and the bar it waits for (%d) together: %s", i, s, p, f)
			}
			if ip >= 0 {
				lastP = i
			}
			if is >= 0 && firstS < 0 {
				firstS = i
			}
		}
		if firstS >= 0 && lastP >= 0 && firstS < lastP {
			return "successor-before-predecessor-left", fmt.Sprintf("bar %d displayed in frame %d while its predecessor %d is displayed until frame %d", s, firstS, p, lastP)
		}
		// a predecessor with a (well-formed) successor is drawn in its final state exactly twice, then it is gone
		if x.EventCount("queue:late-successor") == 0 && x.EventCount("queue:two-successors") == 0 && sRet > 0 {
			nterm, firstTerm := 0, -1
			for i, f := range frames {
				if r := f.Row(p); r != nil && r.Flags != "R" {
					nterm++
					if firstTerm < 0 {
						firstTerm = i
					}
				}
			}
			if nterm > 2 && sRet < frames[firstTerm].Step {
				return "predecessor-not-retired", fmt.Sprintf("bar %d (with bar %d queued behind it) is drawn in its final state in %d frames", p, s, nterm)
			}
		}
		if strings.Contains(sp.Name, "-cancel") {
			// an external cancel may land before the predecessor has left; but once the predecessor's second
			// final-state frame is out (the flush that hands its place over), the closing renders must show the successor
			nterm := 0
			for _, f := range frames {
				if r := f.Row(p); r != nil && r.Flags != "R" {
					nterm++
				}
			}
			if sp.Refresh == "auto" && nterm >= 2 && firstS < 0 && x.EventCount("queue:late-successor") == 0 {
				return "successor-never-displayed", fmt.Sprintf("bar %d left after %d final-state frames, bar %d (queued after it) does not appear in any of the %d frames", p, nterm, s, len(frames))
			}
			continue
		}
		if sp.Refresh == "auto" && firstS < 0 {
			return "successor-never-displayed", fmt.Sprintf("bar %d (queued after %d) does not appear in any of the %d frames", s, p, len(frames))
		}
		// takes the predecessor's place in the frame right after the predecessor's last one
		if lastP >= 0 && lastP+1 < len(frames) && sRet < frames[lastP].Step && x.EventCount("queue:late-successor") == 0 && x.EventCount("queue:two-successors") == 0 && !sp.Pop {
			// (in pop mode finished bars rise to the top, so indices of unrelated bars shift: C18's subject)
			prev, next := frames[lastP].BarIDs(), frames[lastP+1].BarIDs()
			if indexOf(next, s) != indexOf(prev, p) {
				return "successor-position", fmt.Sprintf("bar %d should replace bar %d at index %d of frame %d: %s -> %s", s, p, indexOf(prev, p), lastP+1, frames[lastP], frames[lastP+1])
			}
		}
	}
	return "", ""
}

func c17Programs(tier string) []*Spec {
	var out []*Spec
	for _, rf := range []string{"auto", "manual"} {
		fin := func(b int, total int64) []Op {
			ops := completeOps(b, total)
			if rf == "manual" {
				ops = append(ops, Op{K: "refresh"}, Op{K: "refresh"}, Op{K: "refresh"})
			}
			return ops
		}
		// bars: 0 = P, 1 = Z (independent, below P), 2 = S after P, 3 = T after S / S2 after P
		base := func(name string) *Spec {
			sp := &Spec{Name: "c17-" + name, Refresh: rf, Q: -1}
			// every bar carries a width-synchronised decorator: a bar taking another's place must also take part in
			// the column from its first frame on (and the bar that left must not be waited for)
			sp.Bars = []BarSpec{{Total: 2, Pre: []DecorSpec{syncD(2, 4)}}, {Total: 2, Pre: []DecorSpec{syncD(3)}}, {Total: 2, After: 1, Pre: []DecorSpec{syncD(5, 1)}}}
			return sp
		}
		// well-formed: successor queued before the predecessor can finish
		sp := base("wf-one")
		sp.Main = []Op{{K: "add", B: 0}, {K: "add", B: 1}, {K: "add", B: 2}}
		sp.Clients = [][]Op{fin(0, 2), fin(1, 2), fin(2, 2)}
		out = append(out, sp)
		// the independent bar was added before the predecessor, so it is pushed back after the successor in the flush
		// that swaps them
		sp = base("wf-z-first")
		sp.Main = []Op{{K: "add", B: 1}, {K: "add", B: 0}, {K: "add", B: 2}}
		sp.Clients = [][]Op{fin(0, 2), fin(2, 2), append([]Op{{K: "barwait", B: 2}}, fin(1, 2)...)}
		out = append(out, sp)
		// the predecessor's priority changes after the successor was queued: the successor takes the place the
		// predecessor holds when it leaves
		sp = base("wf-prio")
		sp.Main = []Op{{K: "add", B: 0}, {K: "add", B: 1}, {K: "add", B: 2}, {K: "prio", B: 0, N: 7}}
		sp.Clients = [][]Op{fin(0, 2), fin(2, 2), append([]Op{{K: "barwait", B: 0}, {K: "barwait", B: 2}}, fin(1, 2)...)}
		out = append(out, sp)
		// successor finishes while still parked
		sp = base("wf-succ-first")
		sp.Main = []Op{{K: "add", B: 0}, {K: "add", B: 1}, {K: "add", B: 2}, {K: "incr", B: 2, N: 2}}
		sp.Clients = [][]Op{fin(0, 2), fin(1, 2)}
		out = append(out, sp)
		// the successor is a filler-less bar created with Progress.New(total, nil, options...)
		sp = base("wf-nil-builder")
		sp.Bars[2].NilBuilder = true
		sp.Main = []Op{{K: "add", B: 0}, {K: "add", B: 1}, {K: "add", B: 2}}
		sp.Clients = [][]Op{fin(0, 2), fin(1, 2), fin(2, 2)}
		out = append(out, sp)
		// chain P <- S <- T
		sp = base("wf-chain")
		sp.Bars = append(sp.Bars, BarSpec{Total: 1, After: 3, Pre: []DecorSpec{syncD(2)}})
		sp.Main = []Op{{K: "add", B: 0}, {K: "add", B: 1}, {K: "add", B: 2}, {K: "add", B: 3}}
		sp.Clients = [][]Op{fin(0, 2), fin(1, 2), fin(2, 2), fin(3, 1)}
		out = append(out, sp)
		// successor added by a client while the predecessor is progressing (may or may not be late: tagged at run time)
		sp = base("race-add")
		sp.Main = []Op{{K: "add", B: 0}, {K: "add", B: 1}}
		sp.Clients = [][]Op{fin(0, 2), fin(1, 2), append([]Op{{K: "add", B: 2}}, fin(2, 2)...)}
		out = append(out, sp)
		// late successor: created after the predecessor is gone
		sp = base("late")
		sp.Main = []Op{{K: "add", B: 0}, {K: "add", B: 1}}
		sp.Clients = [][]Op{append(append(fin(0, 2), Op{K: "barwait", B: 0}, Op{K: "add", B: 2}), fin(2, 2)...), fin(1, 2)}
		out = append(out, sp)
		// two successors of one predecessor
		sp = base("two")
		sp.Bars = append(sp.Bars, BarSpec{Total: 1, After: 1})
		sp.Main = []Op{{K: "add", B: 0}, {K: "add", B: 1}, {K: "add", B: 2}, {K: "add", B: 3}}
		sp.Clients = [][]Op{fin(0, 2), fin(1, 2), fin(2, 2), fin(3, 1)}
		out = append(out, sp)
		// an external cancel anywhere (the thread that issues it is placed by the explorer), in particular between the
		// predecessor's two closing frames: the closing renders go on until the successor has been shown
		sp = base("wf-cancel")
		sp.Main = []Op{{K: "add", B: 0}, {K: "add", B: 1}, {K: "add", B: 2}}
		sp.Clients = [][]Op{fin(0, 2), {{K: "cancel"}}}
		out = append(out, sp)
		// the predecessor is shown, then dropped with Abort(true): the successor follows in the very next frame
		sp = base("wf-abortdrop-shown")
		sp.Main = []Op{{K: "add", B: 0}, {K: "add", B: 1}, {K: "add", B: 2}}
		if rf == "manual" {
			sp.Clients = [][]Op{{{K: "refresh"}, {K: "abort", B: 0, F: true}, {K: "refresh"}, {K: "refresh"}, {K: "refresh"}, {K: "refresh"}}, fin(1, 2), append([]Op{{K: "barwait", B: 0}}, fin(2, 2)...)}
		} else {
			sp.Clients = [][]Op{{{K: "sleep", N: 150}, {K: "abort", B: 0, F: true}}, fin(1, 2), append([]Op{{K: "barwait", B: 0}}, fin(2, 2)...)}
		}
		out = append(out, sp)
		// predecessor aborted / removed on complete / pop mode
		for _, v := range []string{"abort", "abortdrop", "rm", "pop"} {
			sp = base("wf-" + v)
			sp.Main = []Op{{K: "add", B: 0}, {K: "add", B: 1}, {K: "add", B: 2}}
			sp.Clients = [][]Op{fin(0, 2), fin(1, 2), fin(2, 2)}
			switch v {
			case "abort":
				sp.Clients[0] = append([]Op{{K: "abort", B: 0}}, sp.Clients[0][2:]...)
			case "abortdrop":
				sp.Clients[0] = append([]Op{{K: "abort", B: 0, F: true}}, sp.Clients[0][2:]...)
			case "rm":
				sp.Bars[0].Rm = true
			case "pop":
				sp.Pop = true
			}
			out = append(out, sp)
		}
	}
	return out
}

func init() {
	register(&Family{
		Property: "C17",
		Rule: "also: an external cancel placed anywhere by the explorer (once the predecessor's second final-state frame is out, the closing renders must show the successor), a predecessor dropped with Abort(true) after it was shown; " +
			"histories over {create P, create independent Z, create S after P (before P progresses / concurrently with P's progress / after P is gone), create a second successor of P, create T after S, each bar finishing (complete, abort, abort+drop, remove-on-complete, pop mode)} in auto and manual refresh; every schedule within the deviation bound. " +
			"Whether a successor was created after its predecessor's final frame had been flushed, or as a second successor, is observed exactly at run time (a filler middleware runs inside the container goroutine while it executes the Add request) and partitions the executions. " +
			"Oracle: no frame shows a bar with its predecessor; a predecessor is drawn in its final state at most twice; the successor is never shown before the predecessor's last frame; it takes the predecessor's index in the next frame; every queued bar appears in some frame (auto refresh); Wait and all calls return.",
		Items: func(tier string) []Item {
			var items []Item
			bound := 1
			if tier == "thorough" {
				bound = 2
			}
			for _, sp := range c17Programs(tier) {
				b := bound
				if strings.HasPrefix(sp.Name, "c17-two") || strings.HasPrefix(sp.Name, "c17-late") {
					b = 1 // the programs of the two recorded findings: every execution of theirs runs to the horizon
				}
				if strings.Contains(sp.Name, "-cancel") {
					b = 2 // the cancelling thread's placement costs a deviation by itself (both tiers: d=3 does not fit the budget)
				}
				its := specItemsMixed("C17", sp, b, 1, allStrats, nil, c17Oracle)
				for i := range its {
					// executions of these programs have < 800 visible operations; a short horizon keeps the
					// (known) non-terminating ones cheap
					its[i].Cfg = mcrt.Config{MaxSteps: 4000, FairAfter: 1500}
				}
				items = append(items, its...)
			}
			return items
		},
	})
}
