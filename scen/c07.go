package scen

import (
	"bytes"
	"fmt"
	"strings"
	"time"
	"unicode/utf8"

	"mcrt"

	"github.com/acarl005/stripansi"
	"github.com/mattn/go-runewidth"
	"github.com/vbauerster/mpb/v8"
	"github.com/vbauerster/mpb/v8/decor"
)

// C07: a rendered row never exceeds its width, and rendering always terminates.

var c07Strs = []string{"=", "", "界", "é", "́", "ab"}
var c07Tips = [][]string{{">"}, {"界"}, {"", ">"}, {"=>"}}

type c07Style struct {
	name string
	mk   func() mpb.BarStyleComposer
	tags []string
}

func c07Styles(tier string) []c07Style {
	var out []c07Style
	q := func(s string) string { return fmt.Sprintf("%+q", s) }
	for _, f := range c07Strs {
		for _, p := range c07Strs {
			for ti, tip := range c07Tips {
				f, p, tip := f, p, tip
				if tier != "thorough" && ti > 0 && (f != "=" && p != "=") {
					continue
				}
				out = append(out, c07Style{fmt.Sprintf("filler=%s padding=%s tip=%q", q(f), q(p), tip), func() mpb.BarStyleComposer {
					return mpb.BarStyle().Filler(f).Padding(p).Tip(tip...)
				}, nil})
			}
		}
	}
	for _, l := range c07Strs {
		for _, r := range c07Strs {
			l, r := l, r
			out = append(out, c07Style{fmt.Sprintf("lbound=%s rbound=%s", q(l), q(r)), func() mpb.BarStyleComposer {
				return mpb.BarStyle().Lbound(l).Rbound(r)
			}, nil})
		}
	}
	for _, rf := range c07Strs {
		rf := rf
		out = append(out, c07Style{fmt.Sprintf("refiller=%s", q(rf)), func() mpb.BarStyleComposer {
			return mpb.BarStyle().Refiller(rf)
		}, nil})
	}
	return out
}

func dispWidth(s string) int { return runewidth.StringWidth(stripansi.Strip(s)) }

func allot(req, avail int) int {
	if req < 1 || req > avail {
		return avail
	}
	return req
}

func c07FillChunks(tier string) []SeqChunk {
	var chunks []SeqChunk
	widths := []int{0, 1, 2, 3, 4, 5, 8, 13, 24, 80}
	if tier == "thorough" {
		widths = nil
		for w := 0; w <= 24; w++ {
			widths = append(widths, w)
		}
		widths = append(widths, 79, 80, 81, 200)
	}
	prog := [][2]int64{{0, 0}, {4, 0}, {4, 1}, {4, 2}, {4, 3}, {4, 4}, {100, 1}, {100, 99}}
	styles := c07Styles(tier)
	per := 12
	for i := 0; i < len(styles); i += per {
		j := i + per
		if j > len(styles) {
			j = len(styles)
		}
		group := styles[i:j]
		chunks = append(chunks, SeqChunk{Name: fmt.Sprintf("c07-fill-%03d", i/per), Gen: func(env *SeqEnv) {
			for _, st := range group {
				for _, rev := range []bool{false, true} {
					for _, toc := range []bool{false, true} {
						c := st.mk()
						if rev {
							c = c.Reverse()
						}
						if toc {
							c = c.TipOnComplete()
						}
						for _, w := range widths {
							reqs := map[int]bool{0: true, 1: true, w - 1: true, w: true, w + 1: true}
							for req := -1; req <= w+1; req++ {
								if !reqs[req] || req < 0 {
									continue
								}
								for _, pr := range prog {
									for _, rfl := range []int64{0, 1} {
										refill := int64(0)
										if rfl == 1 {
											refill = pr[1] / 2
											if refill == 0 {
												continue
											}
										}
										id := fmt.Sprintf("%s rev=%v tipOnComplete=%v avail=%d req=%d total=%d cur=%d refill=%d", st.name, rev, toc, w, req, pr[0], pr[1], refill)
										filler := c.Build() // fresh tip counter per case
										env.Case(id, func() (string, bool, string, string) {
											var buf bytes.Buffer
											stat := decor.Statistics{AvailableWidth: w, RequestedWidth: req, Total: pr[0], Current: pr[1], Refill: refill, Completed: pr[0] > 0 && pr[1] >= pr[0]}
											err := filler.Fill(&buf, stat)
											out := buf.String()
											if err != nil {
												return out, true, "fill-error", err.Error()
											}
											if !utf8.ValidString(out) {
												return out, true, "invalid-utf8", fmt.Sprintf("%+q", out)
											}
											dw := dispWidth(out)
											al := allot(req, w)
											if out != "" && dw != al {
												key := "body-width"
												if dw > al {
													key = "body-overflow"
												}
												return out, true, key, fmt.Sprintf("bar body is %d columns wide, allotted %d: %+q", dw, al, out)
											}
											return out, out != "", "", ""
										})
									}
								}
							}
						}
					}
				}
			}
		}})
	}
	// one filler instance reused over a history of draws (what a live bar does): every call must still respect the
	// allotted width and, for styles whose tip has a single frame, equal what a fresh instance draws for the same input
	type draw struct {
		w             int
		total, cur, r int64
	}
	var alpha []draw
	for _, w := range []int{0, 2, 3, 5, 9} {
		for _, pr := range [][3]int64{{4, 0, 0}, {4, 2, 0}, {4, 2, 1}, {4, 4, 0}, {100, 1, 0}, {8, 2, 0}, {2, 2, 0}} {
			alpha = append(alpha, draw{w, pr[0], pr[1], pr[2]})
		}
	}
	depth := 2
	if tier == "thorough" {
		depth = 3
	}
	for i := 0; i < len(styles); i += per {
		j := i + per
		if j > len(styles) {
			j = len(styles)
		}
		group := styles[i:j]
		chunks = append(chunks, SeqChunk{Name: fmt.Sprintf("c07-reuse-%03d", i/per), Gen: func(env *SeqEnv) {
			for _, st := range group {
				single := !strings.Contains(st.name, `tip=["" ">"]`)
				for _, rev := range []bool{false, true} {
					c := st.mk()
					if rev {
						c = c.Reverse()
					}
					idx := make([]int, depth)
					for {
						hist := make([]draw, depth)
						id := fmt.Sprintf("reuse %s rev=%v:", st.name, rev)
						for k, a := range idx {
							hist[k] = alpha[a]
							id += fmt.Sprintf(" (w=%d %d/%d r=%d)", hist[k].w, hist[k].cur, hist[k].total, hist[k].r)
						}
						env.Case(id, func() (string, bool, string, string) {
							filler := c.Build()
							all := ""
							for k, d := range hist {
								var buf, ref bytes.Buffer
								stat := decor.Statistics{AvailableWidth: d.w, Total: d.total, Current: d.cur, Refill: d.r, Completed: d.cur >= d.total}
								if err := filler.Fill(&buf, stat); err != nil {
									return all, true, "fill-error", err.Error()
								}
								out := buf.String()
								all += out + "|"
								if dw := dispWidth(out); out != "" && dw != d.w {
									key := "reuse-width"
									if dw > d.w {
										key = "reuse-overflow"
									}
									return all, true, key, fmt.Sprintf("draw %d of a reused filler is %d columns wide, allotted %d: %+q", k, dw, d.w, out)
								}
								if single {
									if err := c.Build().Fill(&ref, stat); err == nil && ref.String() != out {
										return all, true, "reuse-differs", fmt.Sprintf("draw %d of a reused filler gives %+q, a fresh one %+q", k, out, ref.String())
									}
								}
							}
							return all, true, "", ""
						})
						k := depth - 1
						for k >= 0 {
							idx[k]++
							if idx[k] < len(alpha) {
								break
							}
							idx[k] = 0
							k--
						}
						if k < 0 {
							break
						}
					}
				}
			}
		}})
	}
	// spinner
	frames := [][]string{{"⠋", "⠙"}, {"界"}, {"", "x"}, {"ab", "c"}, {"é"}, {"́"}}
	chunks = append(chunks, SeqChunk{Name: "c07-spinner", Gen: func(env *SeqEnv) {
		for fi, fr := range frames {
			for pos := 0; pos < 3; pos++ {
				for _, w := range widths {
					for _, req := range []int{0, 1, w - 1, w + 1} {
						if req < 0 {
							continue
						}
						c := mpb.SpinnerStyle(fr...)
						switch pos {
						case 1:
							c = c.PositionLeft()
						case 2:
							c = c.PositionRight()
						}
						f := c.Build()
						for k := 0; k < 2; k++ {
							id := fmt.Sprintf("spinner frames=%d pos=%d avail=%d req=%d call=%d", fi, pos, w, req, k)
							env.Case(id, func() (string, bool, string, string) {
								var buf bytes.Buffer
								err := f.Fill(&buf, decor.Statistics{AvailableWidth: w, RequestedWidth: req, Total: 3, Current: 1})
								out := buf.String()
								if err != nil {
									return out, true, "fill-error", err.Error()
								}
								if dw, al := dispWidth(out), allot(req, w); out != "" && dw != al {
									key := "spinner-width"
									if dw > al {
										key = "spinner-overflow"
									}
									return out, true, key, fmt.Sprintf("spinner is %d columns wide, allotted %d: %+q", dw, al, out)
								}
								return out, out != "", "", ""
							})
						}
					}
				}
			}
		}
	}})
	return chunks
}

type c07Decor struct {
	name string
	mk   func() decor.Decorator
}

func c07Decors() []c07Decor {
	var ds []c07Decor
	texts := []string{"", "a", "界界", strings.Repeat("long", 8)}
	for _, t := range texts {
		for _, w := range []int{0, 3, 40} {
			for _, c := range []int{0, decor.DextraSpace | decor.DindentRight} {
				t, w, c := t, w, c
				ds = append(ds, c07Decor{fmt.Sprintf("Name(%q,W=%d,C=%d)", t, w, c), func() decor.Decorator { return decor.Name(t, decor.WC{W: w, C: c}) }})
			}
		}
	}
	red := func(s string) string { return "\x1b[31m" + s + "\x1b[0m" }
	ds = append(ds, c07Decor{"Meta(Name(colour))", func() decor.Decorator { return decor.Meta(decor.Name("colour"), red) }})
	ds = append(ds, c07Decor{"Meta(Name(界界界,W=7))", func() decor.Decorator { return decor.Meta(decor.Name("界界界", decor.WC{W: 7}), red) }})
	return ds
}

// rowCase draws one frame of a one-bar container of width w and returns the row.
func rowCase(w int, barw int, filler mpb.BarFillerBuilder, pre, app decor.Decorator, trim bool, total, cur int64) (string, bool) {
	var out rowRec
	mrc := make(chan interface{})
	p := mpb.New(mpb.WithOutput(&out), mpb.WithWidth(w), mpb.WithManualRefresh(mrc))
	opts := []mpb.BarOption{}
	if barw > 0 {
		opts = append(opts, mpb.BarWidth(barw))
	}
	if pre != nil {
		opts = append(opts, mpb.PrependDecorators(pre))
	}
	if app != nil {
		opts = append(opts, mpb.AppendDecorators(app))
	}
	if trim {
		opts = append(opts, mpb.BarFillerTrim())
	}
	b := p.New(total, filler, opts...)
	b.SetCurrent(cur)
	// refresh twice, then a Write: when it returns the first frame has been flushed (the container
	// goroutine serves one request at a time)
	mrc <- time.Now()
	mrc <- time.Now()
	p.Write(nil)
	b.Abort(true)
	p.Shutdown()
	if len(out.writes) == 0 {
		return "", false
	}
	return out.writes[0], true
}

type rowRec struct{ writes []string }

func (r *rowRec) Write(p []byte) (int, error) {
	r.writes = append(r.writes, string(p))
	return len(p), nil
}

func c07RowChunks(tier string) []SeqChunk {
	var chunks []SeqChunk
	ds := c07Decors()
	widths := []int{1, 2, 5, 10, 20, 40, 80}
	if tier == "thorough" {
		widths = []int{1, 2, 3, 4, 5, 7, 10, 13, 20, 39, 40, 41, 80, 120}
	}
	type fb struct {
		name string
		b    func() mpb.BarFillerBuilder
	}
	fillers := []fb{
		{"bar", func() mpb.BarFillerBuilder { return mpb.BarStyle() }},
		{"bar-wide", func() mpb.BarFillerBuilder { return mpb.BarStyle().Filler("界").Tip("だ").Padding("つ") }},
		{"spinner", func() mpb.BarFillerBuilder { return mpb.SpinnerStyle() }},
	}
	for _, w := range widths {
		for _, fl := range fillers {
			w, fl := w, fl
			chunks = append(chunks, SeqChunk{Name: fmt.Sprintf("c07-row-%s-w%d", fl.name, w), Gen: func(env *SeqEnv) {
				for pi := -1; pi < len(ds); pi++ {
					for ai := -1; ai < len(ds); ai++ {
						if tier != "thorough" && pi >= 0 && ai >= 0 && (pi+ai)%3 != 0 {
							continue
						}
						for _, trim := range []bool{false, true} {
							for _, barw := range []int{0, w - 1} {
								if barw < 0 || (barw == 0 && false) {
									continue
								}
								var pre, app decor.Decorator
								pn, an := "-", "-"
								if pi >= 0 {
									pre, pn = ds[pi].mk(), ds[pi].name
								}
								if ai >= 0 {
									app, an = ds[ai].mk(), ds[ai].name
								}
								id := fmt.Sprintf("row w=%d barw=%d filler=%s pre=%s app=%s trim=%v", w, barw, fl.name, pn, an, trim)
								env.Case(id, func() (string, bool, string, string) {
									row, ok := rowCase(w, barw, fl.b(), pre, app, trim, 10, 4)
									if !ok {
										return "", false, "no-frame", "no frame was written"
									}
									line := strings.TrimSuffix(row, "\n")
									if !utf8.ValidString(line) {
										return row, true, "invalid-utf8", fmt.Sprintf("%+q", row)
									}
									if strings.Contains(line, "\n") {
										return row, true, "row-multiline", fmt.Sprintf("%+q", row)
									}
									if dw := dispWidth(line); dw > w {
										return row, true, "row-overflow", fmt.Sprintf("row is %d columns wide on a %d column terminal: %+q", dw, w, line)
									}
									return row, true, "", ""
								})
							}
						}
					}
				}
			}})
		}
	}
	// the library's own replacement fillers: a message shown instead of the bar once it has completed / was aborted
	chunks = append(chunks, SeqChunk{Name: "c07-row-message-fillers", Gen: func(env *SeqEnv) {
		msgs := []string{"", "done", "all 3 files were downloaded and verified", "完了しました全部のファイル", strings.Repeat("x", 100)}
		for _, w := range widths {
			for mi, msg := range msgs {
				for _, how := range []string{"complete", "abort"} {
					for _, trim := range []bool{false, true} {
						for _, decorMode := range []string{"false", "true", "growing"} {
							withDecor := decorMode == "true"
							id := fmt.Sprintf("row w=%d message-filler on-%s msg=%d trim=%v decor=%s", w, how, mi, trim, decorMode)
							env.Case(id, func() (string, bool, string, string) {
								out := &rowRec{}
								mrc := make(chan interface{})
								p := mpb.New(mpb.WithOutput(out), mpb.WithWidth(w), mpb.WithManualRefresh(mrc))
								opts := []mpb.BarOption{mpb.BarFillerOnComplete(msg), mpb.BarFillerOnAbort(msg)}
								if trim {
									opts = append(opts, mpb.BarFillerTrim())
								}
								if withDecor {
									opts = append(opts, mpb.PrependDecorators(decor.Name("job")), mpb.AppendDecorators(decor.Percentage()))
								}
								if decorMode == "growing" {
									// the room left for the message shrinks from one frame of the finished bar to the next
									calls := 0
									opts = append(opts, mpb.PrependDecorators(decor.Any(func(decor.Statistics) string {
										calls++
										if calls == 1 {
											return "j"
										}
										return strings.Repeat("j", w/2+1)
									})))
								}
								b := p.AddBar(3, opts...)
								if how == "complete" {
									b.IncrBy(3)
								} else {
									b.Abort(false)
								}
								mrc <- time.Now()
								mrc <- time.Now()
								p.Write(nil)
								p.Shutdown()
								if len(out.writes) == 0 {
									return "", false, "no-frame", "no frame was written"
								}
								all := ""
								for fi, wr := range out.writes {
									line := strings.TrimSuffix(stripansi.Strip(wr), "\n")
									all += line + "|"
									if strings.Contains(line, "\n") {
										return all, true, "row-multiline", fmt.Sprintf("%+q", line)
									}
									if dw := dispWidth(line); dw > w {
										return all, true, "message-filler-overflow", fmt.Sprintf("frame %d: the row of a bar that was %sd is %d columns wide on a %d column terminal: %+q", fi, how, dw, w, line)
									}
								}
								return all, true, "", ""
							})
						}
					}
				}
			}
		}
	}})
	// built-in decorators report the display width of what they return
	chunks = append(chunks, SeqChunk{Name: "c07-decor-width", Gen: func(env *SeqEnv) {
		red := func(s string) string { return "\x1b[1;31m" + s + "\x1b[0m" }
		start := time.Unix(0, 0)
		mk := map[string]func(wc decor.WC) decor.Decorator{
			"Name":           func(wc decor.WC) decor.Decorator { return decor.Name("名前x", wc) },
			"Counters":       func(wc decor.WC) decor.Decorator { return decor.CountersKibiByte("% .1f / % .1f", wc) },
			"CountersNoUnit": func(wc decor.WC) decor.Decorator { return decor.CountersNoUnit("%d / %d", wc) },
			"Percentage":     func(wc decor.WC) decor.Decorator { return decor.Percentage(wc) },
			"NewPercentage":  func(wc decor.WC) decor.Decorator { return decor.NewPercentage("%.2f", wc) },
			"Elapsed":        func(wc decor.WC) decor.Decorator { return decor.NewElapsed(decor.ET_STYLE_GO, start, wc) },
			"EwmaETA":        func(wc decor.WC) decor.Decorator { return decor.EwmaETA(decor.ET_STYLE_MMSS, 30, wc) },
			"AverageETA":     func(wc decor.WC) decor.Decorator { return decor.NewAverageETA(decor.ET_STYLE_HHMMSS, start, nil, wc) },
			"EwmaSpeed":      func(wc decor.WC) decor.Decorator { return decor.EwmaSpeed(decor.SizeB1024(0), "% .2f", 30, wc) },
			"AverageSpeed": func(wc decor.WC) decor.Decorator {
				return decor.NewAverageSpeed(decor.SizeB1000(0), "% .1f", start, wc)
			},
			"Spinner":         func(wc decor.WC) decor.Decorator { return decor.Spinner(nil, wc) },
			"SpinnerWide":     func(wc decor.WC) decor.Decorator { return decor.Spinner([]string{"界", "x"}, wc) },
			"TotalKiloByte":   func(wc decor.WC) decor.Decorator { return decor.TotalKiloByte("% .1f", wc) },
			"CurrentNoUnit":   func(wc decor.WC) decor.Decorator { return decor.CurrentNoUnit("%d", wc) },
			"InvertedCurrent": func(wc decor.WC) decor.Decorator { return decor.InvertedCurrentKibiByte("% d", wc) },
			"Any": func(wc decor.WC) decor.Decorator {
				return decor.Any(func(decor.Statistics) string { return "éé" }, wc)
			},
		}
		names := []string{"Name", "Counters", "CountersNoUnit", "Percentage", "NewPercentage", "Elapsed", "EwmaETA", "AverageETA", "EwmaSpeed", "AverageSpeed", "Spinner", "SpinnerWide", "TotalKiloByte", "CurrentNoUnit", "InvertedCurrent", "Any"}
		stats := []decor.Statistics{{Total: 0, Current: 0}, {Total: 1 << 20, Current: 1 << 10}, {Total: 100, Current: 100, Completed: true}, {Total: 100, Current: 7, Aborted: true}}
		for _, n := range names {
			for _, w := range []int{0, 3, 12, 40} {
				for _, c := range []int{0, decor.DindentRight, decor.DextraSpace, decor.DextraSpace | decor.DindentRight} {
					for _, wrap := range []string{"", "meta", "oncomplete", "onabort", "cmeta"} {
						for si, st := range stats {
							d := mk[n](decor.WC{W: w, C: c})
							switch wrap {
							case "meta":
								d = decor.Meta(d, red)
							case "oncomplete":
								d = decor.OnComplete(d, "完了")
							case "onabort":
								d = decor.OnAbort(d, "aborted!")
							case "cmeta":
								d = decor.OnCompleteMeta(decor.OnComplete(d, "done"), red)
							}
							id := fmt.Sprintf("decor %s W=%d C=%d wrap=%s stat=%d", n, w, c, wrap, si)
							st := st
							env.Case(id, func() (string, bool, string, string) {
								s, rw := d.Decor(st)
								if n == "Elapsed" || n == "AverageETA" || n == "AverageSpeed" {
									// depends on the clock: width relation is checked, text is not part of the digest
									if dw := dispWidth(s); dw != rw {
										return "", true, "decor-width", fmt.Sprintf("%s returned width %d for %+q (display width %d)", n, rw, s, dw)
									}
									return "", true, "", ""
								}
								if dw := dispWidth(s); dw != rw {
									return s, true, "decor-width", fmt.Sprintf("%s returned width %d for %+q (display width %d)", n, rw, s, dw)
								}
								return fmt.Sprintf("%s|%d", s, rw), true, "", ""
							})
						}
					}
				}
			}
		}
	}})
	return chunks
}

func init() {
	SeqFamilies["C07"] = func(tier string) []SeqChunk { return append(c07FillChunks(tier), c07RowChunks(tier)...) }
	register(&Family{
		Property: "C07",
		Rule: "also: reuse histories with equal current and different totals, message fillers drawn in successive frames while the room left for them shrinks; " +
			"(a) BarFiller.Fill driven directly: styles = {filler} x {padding} x {tip frame lists} and {lbound} x {rbound} and {refiller} over the strings {\"=\", \"\", 2-column CJK, base+combining mark, lone combining mark (0 columns), two ASCII runes} with tip lists {[>], [wide], [\"\", >], [=>]}, x reverse x tip-on-complete, available widths {0..5,8,13,24,80} (thorough 0..24,79,80,81,200), requested widths {0,1,w-1,w,w+1}, eight (total,current) pairs, refill {0, current/2}; spinner frames x 3 positions likewise. " +
			"(b) one frame of a one-bar container of width w (manual refresh, non-terminal output) with 0..1 decorators per side from 26 Name/Meta decorators (texts empty/ASCII/CJK/32 columns, W in {0,3,40}, flags, ANSI colour through Meta), trim on/off, BarWidth default and w-1, three fillers. (c) every built-in decorator x WC x wrapper x statistics: reported width vs display width. " +
			"Oracle: termination (loop fuel: a loop that runs 50000 iterations without a visible operation is reported as FUEL), no panic, valid UTF-8, body width == min(requested, available) when anything is drawn, row display width (SGR stripped) <= terminal width, reported width == display width; (d) two containers on pseudo terminals (4 bars on 3 rows whose bottom bars leave; decorators wider than the terminal): no line wraps. Every terminating case is re-executed on the unmodified package (digest comparison).",
		Items: func(tier string) []Item {
			items := seqItems("C07", tier)
			// (d) whole containers on a pseudo terminal with more rows than the terminal shows and with decorators wider
			// than the terminal: no line written to the terminal may wrap, in any frame of any schedule explored
			for _, sp := range c04Programs(tier) {
				if !strings.HasPrefix(sp.Name, "c04-tall-drop") && !strings.HasPrefix(sp.Name, "c04-narrow-decor") {
					continue
				}
				bound := 0
				if tier == "thorough" {
					bound = 1
				}
				items = append(items, specItems("C07", sp, bound, []int{mcrt.StratFIFO}, c04Tags(sp), func(sp *Spec, x *X, res *mcrt.Result) (string, string) {
					if k, d := c04Oracle(sp, x, res); k == "row-wider-than-terminal" {
						return k, d
					}
					return "", ""
				})...)
			}
			return items
		},
	})
}
