package scen

import (
	"fmt"
	"io"
	"math"
	"strings"
	"time"

	"github.com/vbauerster/mpb/v8"
	"github.com/vbauerster/mpb/v8/decor"
)

// C09: bar counters and completion follow the documented sequential rules.
// Explicit-state breadth-first search: states are reference-model states, every
// transition calls the real method on a real bar (re-created by replaying the
// shortest path on a fresh container).

type refBar struct {
	total, current, refill int64
	trigger, aborted, done bool // done = completed
}

func newRefBar(total int64) refBar { return refBar{total: total, trigger: total > 0} }

func (r *refBar) reach() {
	if r.trigger && r.current >= r.total {
		r.current = r.total
		r.done = true
	}
}

type c09Op struct {
	k    string
	n    int64
	flag bool
}

func (o c09Op) String() string {
	switch o.k {
	case "settotal":
		return fmt.Sprintf("SetTotal(%d,%v)", o.n, o.flag)
	case "abort":
		return fmt.Sprintf("Abort(%v)", o.flag)
	case "trigger":
		return "EnableTriggerComplete()"
	}
	return fmt.Sprintf("%s(%d)", o.k, o.n)
}

// apply is the reference semantics, written from the doc comments and the property text.
func (r *refBar) apply(o c09Op) {
	if r.done || r.aborted {
		return
	}
	switch o.k {
	case "IncrInt64", "IncrBy", "Increment", "EwmaIncrInt64", "EwmaIncrBy", "EwmaIncrement":
		r.current = satAdd(r.current, o.n) // increments accumulate; what int64 cannot hold stays at its end
		r.reach()
	case "SetCurrent", "EwmaSetCurrent":
		if o.n < 0 {
			return
		}
		r.current = o.n
		r.reach()
	case "settotal":
		if r.trigger {
			return
		}
		if o.n < 0 {
			r.total = r.current
		} else {
			r.total = o.n
		}
		if o.flag {
			r.current = r.total
			r.trigger = true
			r.done = true
		}
	case "trigger":
		if r.trigger {
			return
		}
		r.trigger = true
		r.reach()
	case "SetRefill":
		if o.n < r.current {
			r.refill = o.n
		} else {
			r.refill = r.current
		}
	case "abort":
		r.aborted = true
	}
}

func applyReal(b *mpb.Bar, o c09Op) {
	switch o.k {
	case "IncrInt64":
		b.IncrInt64(o.n)
	case "IncrBy":
		b.IncrBy(int(o.n))
	case "Increment":
		b.Increment()
	case "EwmaIncrInt64":
		b.EwmaIncrInt64(o.n, time.Millisecond)
	case "EwmaIncrBy":
		b.EwmaIncrBy(int(o.n), time.Millisecond)
	case "EwmaIncrement":
		b.EwmaIncrement(time.Millisecond)
	case "SetCurrent":
		b.SetCurrent(o.n)
	case "EwmaSetCurrent":
		b.EwmaSetCurrent(o.n, time.Millisecond)
	case "settotal":
		b.SetTotal(o.n, o.flag)
	case "trigger":
		b.EnableTriggerComplete()
	case "SetRefill":
		b.SetRefill(o.n)
	case "abort":
		b.Abort(o.flag)
	}
}

// satAdd is a + b, saturating at the ends of int64.
func satAdd(a, b int64) int64 {
	if b > 0 && a > math.MaxInt64-b {
		return math.MaxInt64
	}
	if b < 0 && a < math.MinInt64-b {
		return math.MinInt64
	}
	return a + b
}

var c09Alphabet = func() []c09Op {
	var a []c09Op
	for _, k := range []int64{-1, 0, 1, 2, 5, math.MaxInt64, math.MinInt64} {
		a = append(a, c09Op{k: "IncrInt64", n: k})
	}
	for _, k := range []int64{-1, 0, 1, 2, 5} {
		a = append(a, c09Op{k: "SetCurrent", n: k})
	}
	for _, t := range []int64{-1, 0, 2, 5} {
		a = append(a, c09Op{k: "settotal", n: t}, c09Op{k: "settotal", n: t, flag: true})
	}
	a = append(a, c09Op{k: "trigger"})
	for _, r := range []int64{-1, 0, 1, 3} {
		a = append(a, c09Op{k: "SetRefill", n: r})
	}
	a = append(a, c09Op{k: "abort"}, c09Op{k: "abort", flag: true})
	return a
}()

type c09Obs struct {
	cur        int64
	comp, abrt bool
	stat       *decor.Statistics
}

// runPath creates a fresh container and bar, applies the operations, reads the getters and (if frame)
// draws one frame to capture the Statistics handed to the filler.
func runPath(total int64, path []c09Op, frame bool, ewma bool) c09Obs {
	return runPathMode(total, path, frame, ewma, false)
}

// runPathMode: with auto=true the container refreshes by a ticker with a one hour period (never fires here), so a
// completed bar's goroutine keeps serving operations, which is what an Abort on a completed bar needs.
func runPathMode(total int64, path []c09Op, frame bool, ewma bool, auto bool) c09Obs {
	var rec rowRec
	var last *decor.Statistics
	mrc := make(chan interface{})
	var p *mpb.Progress
	if auto {
		frame = false
		p = mpb.New(mpb.WithOutput(&rec), mpb.WithAutoRefresh(), mpb.WithRefreshRate(time.Hour))
	} else {
		p = mpb.New(mpb.WithOutput(&rec), mpb.WithManualRefresh(mrc))
	}
	filler := mpb.BarFillerFunc(func(w io.Writer, st decor.Statistics) error {
		c := st
		last = &c
		_, err := io.WriteString(w, "x")
		return err
	})
	var opts []mpb.BarOption
	if ewma {
		opts = append(opts, mpb.AppendDecorators(decor.EwmaETA(decor.ET_STYLE_GO, 30), decor.EwmaSpeed(0, "", 30)))
	}
	b, err := p.Add(total, filler, opts...)
	if err != nil {
		panic(err)
	}
	for _, o := range path {
		applyReal(b, o)
	}
	obs := c09Obs{cur: b.Current(), comp: b.Completed(), abrt: b.Aborted()}
	if frame {
		mrc <- time.Now()
		mrc <- time.Now()
		p.Write(nil)
		obs.stat = last
	}
	b.Abort(true)
	p.Shutdown()
	return obs
}

func (r refBar) key() string {
	return fmt.Sprintf("%d/%d/%d/%v/%v/%v", r.total, r.current, r.refill, r.trigger, r.aborted, r.done)
}

func pathString(p []c09Op) string {
	var s []string
	for _, o := range p {
		s = append(s, o.String())
	}
	return strings.Join(s, ";")
}

func c09Compare(ref refBar, obs c09Obs, checkStat bool) (string, string) {
	if obs.cur != ref.current {
		return "current", fmt.Sprintf("Current()=%d, rules give %d", obs.cur, ref.current)
	}
	if obs.comp != ref.done {
		return "completed", fmt.Sprintf("Completed()=%v, rules give %v", obs.comp, ref.done)
	}
	if obs.abrt != ref.aborted {
		return "aborted", fmt.Sprintf("Aborted()=%v, rules give %v", obs.abrt, ref.aborted)
	}
	if checkStat {
		if obs.stat == nil {
			return "no-frame", "no frame was drawn"
		}
		st := obs.stat
		if st.Total != ref.total || st.Current != ref.current || st.Refill != ref.refill || st.Completed != ref.done || st.Aborted != ref.aborted {
			return "statistics", fmt.Sprintf("frame drawn from Total=%d Current=%d Refill=%d Completed=%v Aborted=%v, rules give %d/%d/%d/%v/%v",
				st.Total, st.Current, st.Refill, st.Completed, st.Aborted, ref.total, ref.current, ref.refill, ref.done, ref.aborted)
		}
	}
	return "", ""
}

func c09Chunks(tier string) []SeqChunk {
	depth := 3
	if tier == "thorough" {
		depth = 14
	}
	var chunks []SeqChunk
	for _, init := range []int64{-1, 0, 1, 2, 5} {
		init := init
		chunks = append(chunks, SeqChunk{Name: fmt.Sprintf("c09-bfs-init%d-depth%d", init, depth), Gen: func(env *SeqEnv) {
			type node struct {
				ref  refBar
				path []c09Op
			}
			start := node{ref: newRefBar(init)}
			seen := map[string]bool{start.ref.key(): true}
			frontier := []node{start}
			env.States = 1
			for d := 0; d < depth && len(frontier) > 0; d++ {
				var next []node
				for _, nd := range frontier {
					for _, o := range c09Alphabet {
						ref := nd.ref
						ref.apply(o)
						path := append(append([]c09Op{}, nd.path...), o)
						env.Trans++
						id := fmt.Sprintf("init=%d path=%s", init, pathString(path))
						env.Case(id, func() (string, bool, string, string) {
							obs := runPath(init, path, true, false)
							out := fmt.Sprintf("cur=%d comp=%v abort=%v", obs.cur, obs.comp, obs.abrt)
							if obs.stat != nil {
								out += fmt.Sprintf(" stat=%d/%d/%d/%v/%v", obs.stat.Total, obs.stat.Current, obs.stat.Refill, obs.stat.Completed, obs.stat.Aborted)
							}
							k, dt := c09Compare(ref, obs, true)
							if k != "" {
								dt = fmt.Sprintf("after %s on AddBar(%d): %s", pathString(path), init, dt)
							}
							return out, len(path) > 1, k, dt
						})
						if ref.done || ref.aborted {
							continue // terminal states are C11's subject
						}
						if ref.current > 8 || ref.current < -3 || ref.total > 8 {
							continue
						}
						if k := ref.key(); !seen[k] {
							seen[k] = true
							env.States++
							next = append(next, node{ref, path})
						}
					}
				}
				frontier = next
			}
		}})
	}
	// every operation sequence up to a length, WITHOUT merging sequences that reach the same reference state: state
	// hidden in the implementation (a cached value, a remembered argument) makes two histories with equal reference
	// states behave differently, and the breadth-first search above visits only one history per state
	var redAlpha []c09Op
	for _, o := range c09Alphabet {
		switch {
		case o.k == "IncrInt64" && (o.n == 0 || o.n == 2 || o.n == math.MinInt64),
			o.k == "SetCurrent" && (o.n == 0 || o.n == 1),
			o.k == "settotal" && o.n == 0,
			o.k == "SetRefill" && (o.n == -1 || o.n == 0),
			o.k == "abort" && o.flag:
			continue
		}
		redAlpha = append(redAlpha, o)
	}
	type allCfg struct {
		depth int
		alpha []c09Op
		tag   string
	}
	allCfgs := []allCfg{{3, c09Alphabet, "full"}, {4, redAlpha, "reduced"}}
	if tier == "thorough" {
		allCfgs = []allCfg{{4, c09Alphabet, "full"}, {5, redAlpha, "reduced"}}
	}
	for _, ac := range allCfgs {
		allDepth, allAlpha, allTag := ac.depth, ac.alpha, ac.tag
		for _, init := range []int64{-1, 0, 1, 2, 5} {
			init := init
			chunks = append(chunks, SeqChunk{Name: fmt.Sprintf("c09-allseq-%s-alphabet-init%d-len%d", allTag, init, allDepth), Gen: func(env *SeqEnv) {
				var rec func(ref refBar, path []c09Op)
				rec = func(ref refBar, path []c09Op) {
					for _, o := range allAlpha {
						r2 := ref
						r2.apply(o)
						p2 := append(append([]c09Op{}, path...), o)
						env.Trans++
						env.States++
						id := fmt.Sprintf("allseq init=%d path=%s", init, pathString(p2))
						env.Case(id, func() (string, bool, string, string) {
							obs := runPath(init, p2, false, false)
							out := fmt.Sprintf("cur=%d comp=%v abort=%v", obs.cur, obs.comp, obs.abrt)
							k, dt := c09Compare(r2, obs, false)
							if k != "" {
								dt = fmt.Sprintf("after %s on AddBar(%d): %s", pathString(p2), init, dt)
							}
							return out, len(p2) > 1, k, dt
						})
						if r2.done || r2.aborted || len(p2) >= allDepth {
							continue
						}
						rec(r2, p2)
					}
				}
				rec(newRefBar(init), nil)
			}})
		}
	}
	// aliases: every shorthand behaves like its base letter, with and without moving-average decorators
	chunks = append(chunks, SeqChunk{Name: "c09-aliases", Gen: func(env *SeqEnv) {
		first := []c09Op{{k: "IncrInt64", n: 1}, {k: "settotal", n: 5}, {k: "trigger"}, {k: "SetCurrent", n: 2}, {k: "SetRefill", n: 1}}
		aliases := []c09Op{{k: "IncrBy", n: 2}, {k: "IncrBy", n: -1}, {k: "Increment", n: 1}, {k: "EwmaIncrInt64", n: 2}, {k: "EwmaIncrBy", n: 5}, {k: "EwmaIncrement", n: 1},
			{k: "EwmaSetCurrent", n: 5}, {k: "EwmaSetCurrent", n: -1}, {k: "EwmaSetCurrent", n: 0}, {k: "EwmaIncrInt64", n: 0}, {k: "EwmaIncrInt64", n: -1}}
		for _, init := range []int64{-1, 0, 2, 5} {
			for _, f := range first {
				for _, a := range aliases {
					for _, ewma := range []bool{false, true} {
						path := []c09Op{f, a}
						ref := newRefBar(init)
						ref.apply(f)
						ref.apply(a)
						id := fmt.Sprintf("alias init=%d ewma=%v path=%s", init, ewma, pathString(path))
						env.Trans++
						env.Case(id, func() (string, bool, string, string) {
							obs := runPath(init, path, false, ewma)
							k, dt := c09Compare(ref, obs, false)
							if k != "" {
								dt = fmt.Sprintf("after %s on AddBar(%d): %s", pathString(path), init, dt)
							}
							return fmt.Sprintf("cur=%d comp=%v abort=%v", obs.cur, obs.comp, obs.abrt), true, k, dt
						})
					}
				}
			}
		}
	}})
	// Abort has no effect on a completed bar: every way of completing, then Abort(false/true), manual and auto refresh
	chunks = append(chunks, SeqChunk{Name: "c09-abort-after-complete", Gen: func(env *SeqEnv) {
		completers := [][]c09Op{
			{{k: "IncrInt64", n: 5}}, {{k: "SetCurrent", n: 5}}, {{k: "IncrInt64", n: 2}, {k: "IncrInt64", n: 5}},
			{{k: "settotal", n: -1, flag: true}}, {{k: "settotal", n: 3, flag: true}}, {{k: "IncrInt64", n: 1}, {k: "trigger"}}, {{k: "settotal", n: 2}, {k: "IncrInt64", n: 2}, {k: "trigger"}},
		}
		for _, init := range []int64{0, 1, 5} {
			for _, cp := range completers {
				for _, drop := range []bool{false, true} {
					for _, auto := range []bool{false, true} {
						path := append(append([]c09Op{}, cp...), c09Op{k: "abort", flag: drop}, c09Op{k: "IncrInt64", n: 1})
						ref := newRefBar(init)
						for _, o := range path {
							ref.apply(o)
						}
						if !ref.done {
							continue // this combination does not complete the bar from this initial total
						}
						id := fmt.Sprintf("abort-after-complete init=%d auto=%v path=%s", init, auto, pathString(path))
						env.Trans++
						env.Case(id, func() (string, bool, string, string) {
							obs := runPathMode(init, path, !auto, false, auto)
							k, dt := c09Compare(ref, obs, !auto)
							if k != "" {
								dt = fmt.Sprintf("after %s on AddBar(%d) (auto refresh %v): %s", pathString(path), init, auto, dt)
							}
							return fmt.Sprintf("cur=%d comp=%v abort=%v", obs.cur, obs.comp, obs.abrt), true, k, dt
						})
					}
				}
			}
		}
	}})
	// boundaries: large arguments whose sums stay inside int64
	chunks = append(chunks, SeqChunk{Name: "c09-boundaries", Gen: func(env *SeqEnv) {
		bigs := []int64{1 << 31, 1 << 62, 1<<63 - 1}
		for _, init := range []int64{0, 1<<63 - 1, 1 << 62} {
			for _, a := range bigs {
				for _, b := range bigs {
					for _, shape := range []int{0, 1, 2, 3} {
						var path []c09Op
						switch shape {
						case 0:
							path = []c09Op{{k: "SetCurrent", n: a}, {k: "SetRefill", n: b}}
						case 1:
							if a > (1<<63-1)-b {
								continue // the mathematical sum leaves int64: outside the documented domain
							}
							path = []c09Op{{k: "IncrInt64", n: a}, {k: "IncrInt64", n: b}}
						case 2:
							path = []c09Op{{k: "settotal", n: a}, {k: "SetCurrent", n: b}, {k: "trigger"}}
						case 3:
							path = []c09Op{{k: "SetCurrent", n: a}, {k: "settotal", n: -1, flag: true}}
						}
						ref := newRefBar(init)
						for _, o := range path {
							ref.apply(o)
						}
						id := fmt.Sprintf("boundary init=%d path=%s", init, pathString(path))
						env.Trans++
						env.Case(id, func() (string, bool, string, string) {
							obs := runPath(init, path, true, false)
							k, dt := c09Compare(ref, obs, true)
							if k != "" {
								dt = fmt.Sprintf("after %s on AddBar(%d): %s", pathString(path), init, dt)
							}
							return fmt.Sprintf("cur=%d comp=%v abort=%v", obs.cur, obs.comp, obs.abrt), true, k, dt
						})
					}
				}
			}
		}
	}})
	return chunks
}

func init() {
	SeqFamilies["C09"] = c09Chunks
	register(&Family{
		Property: "C09",
		Rule: "also: every operation sequence up to length 3 over the full alphabet and up to length 4 over a reduced one (thorough: 4 and 5) WITHOUT merging histories that reach the same reference state; " +
			"explicit-state breadth-first search from initial totals {-1,0,1,2,5}: states are reference-model states (total, current, refill, trigger, aborted, completed; values capped at 8), each transition re-creates a real bar on a fresh container by replaying the shortest path and applies one of 25 letters " +
			"{IncrInt64 k (k in -1,0,1,2,5, MaxInt64, MinInt64), SetCurrent k (k in -1,0,1,2,5), SetTotal(t,complete) (t in -1,0,2,5), EnableTriggerComplete, SetRefill r (r in -1,0,1,3), Abort(false/true)} to depth 3 (thorough 14, or until no new state appears); terminal states are not expanded. " +
			"After every transition Current/Completed/Aborted and the Statistics handed to a probe filler in one manually refreshed frame are compared with the reference written from the documentation. Alias pass (IncrBy, Increment, Ewma*) with and without moving-average decorators; boundary pass with 2^31, 2^62, 2^63-1 restricted to non-overflowing sums. " +
			"states/transitions are those of the search; every case is also executed on the unmodified package (digest comparison).",
		Items: func(tier string) []Item { return seqItems("C09", tier) },
	})
}
