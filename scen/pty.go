package scen

import (
	"fmt"
	"os"
	"strings"
	"unsafe"

	"golang.org/x/sys/unix"
	"mcrt/raw"
)

// Pty is a pseudo terminal pair; the slave end is handed to the container as
// its output so that cwriter takes the terminal path (size from the fd).
type Pty struct {
	Master, Slave *os.File
	drain         *raw.Drained
}

func OpenPty(w, h int) (*Pty, error) {
	m, err := os.OpenFile("/dev/ptmx", os.O_RDWR|unix.O_NOCTTY, 0)
	if err != nil {
		return nil, err
	}
	var unlock int32
	if _, _, e := unix.Syscall(unix.SYS_IOCTL, m.Fd(), unix.TIOCSPTLCK, uintptr(unsafe.Pointer(&unlock))); e != 0 {
		m.Close()
		return nil, e
	}
	n, err := unix.IoctlGetInt(int(m.Fd()), unix.TIOCGPTN)
	if err != nil {
		m.Close()
		return nil, err
	}
	s, err := os.OpenFile(fmt.Sprintf("/dev/pts/%d", n), os.O_RDWR|unix.O_NOCTTY, 0)
	if err != nil {
		m.Close()
		return nil, err
	}
	if err := unix.IoctlSetWinsize(int(s.Fd()), unix.TIOCSWINSZ, &unix.Winsize{Row: uint16(h), Col: uint16(w)}); err != nil {
		m.Close()
		s.Close()
		return nil, err
	}
	// a real goroutine outside the controlled scheduler drains the master into a private buffer
	return &Pty{Master: m, Slave: s, drain: raw.Drain(m)}, nil
}

// Finish closes the slave, waits for the drain to end and returns the stream.
func (p *Pty) Finish() string {
	// a sentinel makes sure everything written before it has reached the master before the slave is closed
	// (closing first can lose the tail of the stream)
	const end = "\x1b[0m<<END-OF-STREAM>>"
	p.Slave.WriteString(end)
	p.drain.WaitFor(end)
	p.Slave.Close()
	b := p.drain.Wait()
	p.Master.Close()
	s := string(b)
	if i := strings.Index(s, end); i >= 0 {
		s = s[:i]
	}
	return s
}
