package scen

import (
	"fmt"
	"io"
	"math"
	"strconv"
	"strings"
	"time"

	"github.com/vbauerster/mpb/v8"
	"github.com/vbauerster/mpb/v8/decor"
	"mcrt"
)

// C20: size, percentage, time and rate decorators print the true value.

var units1024 = []struct {
	name string
	v    float64
}{{"TiB", 1 << 40}, {"GiB", 1 << 30}, {"MiB", 1 << 20}, {"KiB", 1 << 10}, {"b", 1}}
var units1000 = []struct {
	name string
	v    float64
}{{"TB", 1e12}, {"GB", 1e9}, {"MB", 1e6}, {"KB", 1e3}, {"b", 1}}

func badFloatText(s string) bool {
	return strings.Contains(s, "NaN") || strings.Contains(s, "Inf") || strings.Contains(s, "%!")
}

// checkSize parses "<number>[ ]<unit>[/s]" back and compares with v.
func checkSize(out string, v int64, binary bool, verb byte, prec int) (string, string) {
	if badFloatText(out) {
		return "nan-inf", fmt.Sprintf("%q", out)
	}
	s := strings.TrimSuffix(out, "/s")
	us := units1000
	if binary {
		us = units1024
	}
	unit, uv := "", 0.0
	for _, u := range us {
		if strings.HasSuffix(s, u.name) {
			unit, uv = u.name, u.v
			break
		}
	}
	if unit == "" {
		return "unit-missing", fmt.Sprintf("%q has no unit", out)
	}
	// largest unit that fits
	want := us[len(us)-1]
	for _, u := range us {
		if float64(v) >= u.v {
			want = u
			break
		}
	}
	if unit != want.name {
		return "unit-choice", fmt.Sprintf("%d printed as %q, largest fitting unit is %s", v, out, want.name)
	}
	num := strings.TrimSpace(strings.TrimSuffix(s, unit))
	if verb == 'b' {
		return "", "" // binary exponent form: only checked for not panicking
	}
	f, err := strconv.ParseFloat(num, 64)
	if err != nil {
		return "unparsable", fmt.Sprintf("%q: %v", out, err)
	}
	got := f * uv
	var tol float64
	switch verb {
	case 'f':
		tol = 0.5*math.Pow(10, -float64(prec))*uv + 1e-9*math.Abs(float64(v))
	case 'e', 'E':
		tol = 0.5*math.Pow(10, -float64(prec))*math.Pow(10, math.Floor(math.Log10(math.Max(f, 1e-300))))*uv + 1e-9*math.Abs(float64(v))
	case 'g', 'G':
		if prec < 0 {
			tol = 1e-9 * math.Abs(float64(v))
		} else {
			p := prec
			if p == 0 {
				p = 1
			}
			tol = 0.5*math.Pow(10, 1-float64(p))*math.Pow(10, math.Floor(math.Log10(math.Max(f, 1e-300))))*uv + 1e-9*math.Abs(float64(v))
		}
	default: // x, X
		if prec < 0 {
			tol = 1e-9 * math.Abs(float64(v))
		} else {
			tol = math.Pow(2, -4*float64(prec)) * math.Pow(2, math.Floor(math.Log2(math.Max(f, 1e-300)))) * uv
		}
	}
	if math.Abs(got-float64(v)) > tol+1e-12 {
		return "value", fmt.Sprintf("%d printed as %q = %g (tolerance %g)", v, out, got, tol)
	}
	return "", ""
}

type verbSpec struct {
	format string
	verb   byte
	prec   int
}

func c20Verbs(tier string) []verbSpec {
	vs := []verbSpec{{"%d", 'f', 0}, {"% d", 'f', 0}, {"%s", 'f', 0}, {"%v", 'f', 0}, {"%f", 'f', 6}, {"%.0f", 'f', 0}, {"%.1f", 'f', 1}, {"% .2f", 'f', 2}, {"%.3f", 'f', 3},
		{"%e", 'e', 6}, {"%.2e", 'e', 2}, {"%g", 'g', -1}, {"%.3g", 'g', 3}, {"%x", 'x', -1}, {"%b", 'b', -1}, {"%+.1f", 'f', 1}, {"%-8.1f", 'f', 1}, {"%08.2f", 'f', 2}}
	if tier == "thorough" {
		vs = append(vs, verbSpec{"%E", 'e', 6}, verbSpec{"%G", 'g', -1}, verbSpec{"%.0e", 'e', 0}, verbSpec{"%.6f", 'f', 6}, verbSpec{"%X", 'x', -1}, verbSpec{"%.2x", 'x', 2}, verbSpec{"% .0f", 'f', 0}, verbSpec{"%.10f", 'f', 10})
	}
	return vs
}

func c20SizeValues(tier string) []int64 {
	var vs []int64
	hi := int64(1100)
	if tier == "thorough" {
		hi = 20500
	}
	for v := int64(0); v <= hi; v++ {
		vs = append(vs, v)
	}
	for _, u := range []float64{1e3, 1e6, 1e9, 1e12, 1 << 10, 1 << 20, 1 << 30, 1 << 40} {
		for _, m := range []float64{1, 1.5, 999.95, 999.9949, 1023.99, 2, 0.9999999} {
			x := u * m
			vs = append(vs, int64(x)-1, int64(x), int64(x)+1)
		}
	}
	for _, k := range []uint{31, 32, 52, 53, 62} {
		vs = append(vs, int64(1)<<k-1, int64(1)<<k, int64(1)<<k+1)
	}
	vs = append(vs, 1<<63-1)
	return vs
}

func parseClock(s string) (time.Duration, bool) {
	parts := strings.Split(s, ":")
	var nums []int64
	for _, p := range parts {
		n, err := strconv.ParseInt(p, 10, 64)
		if err != nil || len(p) < 2 {
			return 0, false
		}
		nums = append(nums, n)
	}
	switch len(nums) {
	case 3:
		return time.Duration(nums[0])*time.Hour + time.Duration(nums[1])*time.Minute + time.Duration(nums[2])*time.Second, true
	case 2:
		return time.Duration(nums[0])*time.Minute + time.Duration(nums[1])*time.Second, true
	}
	return 0, false
}

// recAverage records what reaches the moving average.
type recAverage struct {
	adds []float64
	val  float64
}

func (r *recAverage) Add(v float64)  { r.adds = append(r.adds, v); r.val = v }
func (r *recAverage) Value() float64 { return r.val }
func (r *recAverage) Set(v float64)  { r.val = v }

func c20Chunks(tier string) []SeqChunk {
	var chunks []SeqChunk
	verbs := c20Verbs(tier)
	values := c20SizeValues(tier)
	for _, binary := range []bool{true, false} {
		binary := binary
		chunks = append(chunks, SeqChunk{Name: fmt.Sprintf("c20-size-binary=%v", binary), Gen: func(env *SeqEnv) {
			for _, vb := range verbs {
				for _, v := range values {
					id := fmt.Sprintf("size binary=%v fmt=%q v=%d", binary, vb.format, v)
					env.Case(id, func() (string, bool, string, string) {
						var out string
						if binary {
							out = fmt.Sprintf(vb.format, decor.SizeB1024(v))
						} else {
							out = fmt.Sprintf(vb.format, decor.SizeB1000(v))
						}
						k, d := checkSize(out, v, binary, vb.verb, vb.prec)
						return out, v >= 1000, k, d
					})
				}
			}
			// through the decorators (counters, total, current, speed formatter)
			for _, v := range values {
				if v > 1<<62 {
					continue
				}
				id := fmt.Sprintf("counters binary=%v v=%d", binary, v)
				env.Case(id, func() (string, bool, string, string) {
					var unit interface{} = decor.SizeB1000(0)
					if binary {
						unit = decor.SizeB1024(0)
					}
					st := decor.Statistics{Total: v, Current: v / 3}
					s1, _ := decor.Counters(unit, "%.1f|%.1f").Decor(st)
					s2, _ := decor.Total(unit, "").Decor(st)
					s3, _ := decor.Current(unit, "% .2f").Decor(st)
					s4, _ := decor.InvertedCurrent(unit, "%.1f").Decor(st)
					out := strings.Join([]string{s1, s2, s3, s4}, ";")
					parts := strings.Split(s1, "|")
					if len(parts) != 2 {
						return out, true, "counters-format", out
					}
					if k, d := checkSize(parts[0], v/3, binary, 'f', 1); k != "" {
						return out, true, "counters-" + k, d
					}
					if k, d := checkSize(parts[1], v, binary, 'f', 1); k != "" {
						return out, true, "counters-" + k, d
					}
					if k, d := checkSize(s2, v, binary, 'f', 0); k != "" {
						return out, true, "total-" + k, d
					}
					if k, d := checkSize(s3, v/3, binary, 'f', 2); k != "" {
						return out, true, "current-" + k, d
					}
					if k, d := checkSize(s4, v-v/3, binary, 'f', 1); k != "" {
						return out, true, "inverted-" + k, d
					}
					return out, v >= 1000, "", ""
				})
			}
		}})
	}
	// percentage
	chunks = append(chunks, SeqChunk{Name: "c20-percentage", Gen: func(env *SeqEnv) {
		pv := []verbSpec{{"%d", 'f', 0}, {"% d", 'f', 0}, {"%.2f", 'f', 2}, {"% .1f", 'f', 1}, {"%f", 'f', 6}, {"%.3e", 'e', 3}, {"%g", 'g', -1}, {"%s", 'f', 0}}
		pairs := [][2]int64{}
		for t := int64(0); t <= 40; t++ {
			for c := int64(0); c <= t; c++ {
				pairs = append(pairs, [2]int64{c, t})
			}
		}
		lat := c08Lattice(tier)
		for _, t := range lat {
			for _, c := range lat {
				if c <= t {
					pairs = append(pairs, [2]int64{c, t})
				}
			}
		}
		for _, vb := range pv {
			for _, pr := range pairs {
				cur, tot := pr[0], pr[1]
				id := fmt.Sprintf("percentage fmt=%q cur=%d total=%d", vb.format, cur, tot)
				env.Case(id, func() (string, bool, string, string) {
					out, w := decor.NewPercentage(vb.format).Decor(decor.Statistics{Current: cur, Total: tot})
					if badFloatText(out) {
						return out, true, "nan-inf", out
					}
					if !strings.HasSuffix(out, "%") {
						return out, true, "percent-sign", out
					}
					num := strings.TrimSpace(strings.TrimSuffix(out, "%"))
					f, err := strconv.ParseFloat(num, 64)
					if err != nil {
						return out, true, "unparsable", fmt.Sprintf("%q: %v", out, err)
					}
					want := 0.0
					if tot > 0 {
						want = 100 * float64(cur) / float64(tot)
					}
					tol := 1e-9 + 1e-12*want
					switch vb.verb {
					case 'f':
						tol += 0.5 * math.Pow(10, -float64(vb.prec))
					case 'e':
						tol += 0.5 * math.Pow(10, -float64(vb.prec)) * math.Pow(10, math.Floor(math.Log10(math.Max(want, 1e-300))))
					}
					if math.Abs(f-want) > tol {
						return out, true, "value", fmt.Sprintf("%d of %d printed as %q, true value %g%%", cur, tot, out, want)
					}
					_ = w
					return out, cur > 0 && cur < tot, "", ""
				})
			}
		}
	}})
	// durations through the clock-free EwmaETA (remaining = (total-current) * average)
	chunks = append(chunks, SeqChunk{Name: "c20-durations", Gen: func(env *SeqEnv) {
		var ds []time.Duration
		maxS := 200
		if tier == "thorough" {
			maxS = 4000
		}
		for s := 0; s <= maxS; s++ {
			ds = append(ds, time.Duration(s)*time.Second)
		}
		for _, x := range []time.Duration{59 * time.Second, 60 * time.Second, 3599 * time.Second, 3600 * time.Second, 3601 * time.Second, 86399 * time.Second, 86400 * time.Second,
			59*time.Hour + 59*time.Minute + 59*time.Second, 36 * time.Hour, 1500 * time.Millisecond, 999 * time.Millisecond, 59*time.Minute + 59*time.Second + 999*time.Millisecond} {
			ds = append(ds, x)
		}
		styles := []decor.TimeStyle{decor.ET_STYLE_GO, decor.ET_STYLE_HHMMSS, decor.ET_STYLE_HHMM, decor.ET_STYLE_MMSS}
		for _, st := range styles {
			for _, d := range ds {
				id := fmt.Sprintf("duration style=%d d=%v", st, d)
				env.Case(id, func() (string, bool, string, string) {
					dec := decor.EwmaETA(st, 0)
					dec.(decor.EwmaDecorator).EwmaUpdate(1, d)
					out, _ := dec.Decor(decor.Statistics{Total: 1, Current: 0})
					trunc := d.Truncate(time.Second)
					switch st {
					case decor.ET_STYLE_GO:
						got, err := time.ParseDuration(out)
						if err != nil || got != trunc {
							return out, true, "duration-go", fmt.Sprintf("%v printed as %q", d, out)
						}
					case decor.ET_STYLE_HHMMSS:
						got, ok := parseClock(out)
						if !ok || got != trunc || len(out) != 8 {
							return out, true, "duration-hhmmss", fmt.Sprintf("%v printed as %q", d, out)
						}
					case decor.ET_STYLE_HHMM:
						got, ok := parseClock(out + ":00")
						if !ok || got != d.Truncate(time.Minute) {
							return out, true, "duration-hhmm", fmt.Sprintf("%v printed as %q", d, out)
						}
					case decor.ET_STYLE_MMSS:
						got, ok := parseClock(out)
						if !ok || got != trunc {
							return out, true, "duration-mmss", fmt.Sprintf("%v printed as %q", d, out)
						}
					}
					return out, d >= time.Minute, "", ""
				})
			}
		}
	}})
	// ETA precision: remaining = items left x average duration per item, for per-item durations that are not whole
	// nanoseconds (byte counts at hundreds of MB/s and more)
	chunks = append(chunks, SeqChunk{Name: "c20-eta-precision", Gen: func(env *SeqEnv) {
		for _, perItem := range []float64{0.4, 0.5, 0.7, 1.43, 2.5, 7.3, 999.6, 1e6 + 0.25} {
			for _, left := range []int64{1000, 1e9, 1e11, 3e12} {
				want := time.Duration(float64(left) * perItem)
				if want >= 60*time.Hour {
					continue
				}
				id := fmt.Sprintf("eta per-item=%gns left=%d", perItem, left)
				env.Case(id, func() (string, bool, string, string) {
					dec := decor.MovingAverageETA(decor.ET_STYLE_GO, constAverage(perItem), nil)
					out, _ := dec.Decor(decor.Statistics{Total: left + 5, Current: 5})
					got, err := time.ParseDuration(out)
					// printed precision is one second; allow that plus a relative 1e-6 for float arithmetic
					tol := time.Second + time.Duration(float64(want)*1e-6)
					if err != nil || got < want-tol || got > want+tol {
						return out, true, "eta-value", fmt.Sprintf("%d items left at %g ns per item: ETA printed %q, true value %v", left, perItem, out, want.Truncate(time.Second))
					}
					return out, want >= time.Second, "", ""
				})
			}
		}
	}})
	// estimators: conservation of time over sample sequences
	chunks = append(chunks, SeqChunk{Name: "c20-estimators", Gen: func(env *SeqEnv) {
		type sample struct {
			n int64
			d time.Duration
		}
		var alpha []sample
		for _, n := range []int64{-1, 0, 1, 1024, 1000000} {
			for _, d := range []time.Duration{0, time.Millisecond, time.Second} {
				alpha = append(alpha, sample{n, d})
			}
		}
		depth := 3
		if tier == "thorough" {
			depth = 4
		}
		var rec func(seq []sample)
		rec = func(seq []sample) {
			if len(seq) > 0 {
				seq := append([]sample{}, seq...)
				id := fmt.Sprintf("estimator seq=%v", seq)
				env.Case(id, func() (string, bool, string, string) {
					var outs []string
					for _, kind := range []string{"speed", "eta"} {
						avg := &recAverage{}
						var dec decor.Decorator
						if kind == "speed" {
							dec = decor.MovingAverageSpeed(decor.SizeB1024(0), "% .2f", avg)
						} else {
							dec = decor.MovingAverageETA(decor.ET_STYLE_GO, avg, nil)
						}
						ed := dec.(decor.EwmaDecorator)
						var fed time.Duration
						var weights []int64
						for _, s := range seq {
							before := len(avg.adds)
							ed.EwmaUpdate(s.n, s.d)
							fed += s.d
							if len(avg.adds) > before {
								weights = append(weights, s.n)
							}
							out, _ := dec.Decor(decor.Statistics{Total: 1 << 20, Current: 1 << 10})
							outs = append(outs, out)
							if badFloatText(out) {
								return strings.Join(outs, ";"), true, "nan-inf", fmt.Sprintf("%s decorator printed %q after %v", kind, out, seq)
							}
						}
						// flush: one more sample with progress carries everything that was pending
						ed.EwmaUpdate(1, time.Millisecond)
						fed += time.Millisecond
						weights = append(weights, 1)
						if len(avg.adds) != len(weights) {
							return strings.Join(outs, ";"), true, "sample-dropped", fmt.Sprintf("%s: %d samples with progress, %d reached the moving average (%v)", kind, len(weights), len(avg.adds), seq)
						}
						var delivered float64
						for i, v := range avg.adds {
							if math.IsNaN(v) || math.IsInf(v, 0) {
								return strings.Join(outs, ";"), true, "nan-inf-sample", fmt.Sprintf("%s: moving average was fed %v (%v)", kind, v, seq)
							}
							delivered += v * float64(weights[i])
						}
						if math.Abs(delivered-float64(fed)) > 1e-6*float64(fed)+1 {
							return strings.Join(outs, ";"), true, "time-not-conserved", fmt.Sprintf("%s: %v fed, %v delivered to the moving average (%v)", kind, fed, time.Duration(delivered), seq)
						}
					}
					return strings.Join(outs, ";"), len(seq) > 1, "", ""
				})
			}
			if len(seq) == depth {
				return
			}
			for _, a := range alpha {
				rec(append(seq, a))
			}
		}
		rec(nil)
	}})
	// the default "median of the last three samples" average: drawing a frame between samples must not disturb it
	chunks = append(chunks, SeqChunk{Name: "c20-median", Gen: func(env *SeqEnv) {
		vals := []time.Duration{time.Second, 2 * time.Second, 4 * time.Second, 8 * time.Second}
		depth := 4
		if tier == "thorough" {
			depth = 6
		}
		var rec func(seq []time.Duration)
		rec = func(seq []time.Duration) {
			if len(seq) > 0 {
				seq := append([]time.Duration{}, seq...)
				env.Case(fmt.Sprintf("median seq=%v", seq), func() (string, bool, string, string) {
					dec := decor.MovingAverageETA(decor.ET_STYLE_GO, nil, nil)
					ed := dec.(decor.EwmaDecorator)
					win := [3]time.Duration{}
					var outs []string
					for i, d := range seq {
						ed.EwmaUpdate(1, d)
						win[0], win[1], win[2] = win[1], win[2], d
						a, b, c := win[0], win[1], win[2]
						if a > b {
							a, b = b, a
						}
						if b > c {
							b, c = c, b
						}
						if a > b {
							a, b = b, a
						}
						out, _ := dec.Decor(decor.Statistics{Total: 3, Current: 1}) // two items remain
						outs = append(outs, out)
						got, err := time.ParseDuration(out)
						if err != nil || got != 2*b {
							return strings.Join(outs, ","), true, "median-eta", fmt.Sprintf("after samples %v (a frame drawn after each) the ETA for 2 items reads %q, median of the last three is %v", seq[:i+1], out, b)
						}
					}
					return strings.Join(outs, ","), len(seq) > 3, "", ""
				})
			}
			if len(seq) == depth {
				return
			}
			for _, v := range vals {
				rec(append(seq, v))
			}
		}
		rec(nil)
	}})
	// every sample reaches the built-in estimators however deeply they are wrapped (through a real bar)
	chunks = append(chunks, SeqChunk{Name: "c20-wrapped", Gen: func(env *SeqEnv) {
		for depth := 0; depth <= 3; depth++ {
			for _, kind := range []string{"speed", "eta", "avgadjust"} {
				id := fmt.Sprintf("wrapped kind=%s depth=%d", kind, depth)
				env.Case(id, func() (string, bool, string, string) {
					avg := &recAverage{}
					var dec decor.Decorator
					switch kind {
					case "speed":
						dec = decor.MovingAverageSpeed(decor.SizeB1024(0), "% .2f", avg)
					case "eta":
						dec = decor.MovingAverageETA(decor.ET_STYLE_GO, avg, nil)
					case "avgadjust":
						dec = decor.NewAverageETA(decor.ET_STYLE_GO, time.Unix(0, 0), nil)
					}
					inner := dec
					for i := 0; i < depth; i++ {
						switch i % 3 {
						case 0:
							dec = decor.OnComplete(dec, "done")
						case 1:
							dec = decor.OnAbort(dec, "aborted")
						case 2:
							dec = decor.Meta(dec, func(s string) string { return s })
						}
					}
					p := mpb.New(mpb.WithOutput(io.Discard))
					bar := p.AddBar(100, mpb.AppendDecorators(dec))
					bar.EwmaIncrInt64(10, time.Second)
					bar.EwmaIncrInt64(10, 3*time.Second)
					adjusted := time.Unix(12345, 0)
					bar.DecoratorAverageAdjust(adjusted)
					traversed := 0
					var reached decor.Decorator
					bar.TraverseDecorators(func(d decor.Decorator) { traversed++; reached = d })
					bar.Abort(true)
					p.Shutdown()
					out := fmt.Sprintf("adds=%v traversed=%d", avg.adds, traversed)
					if kind != "avgadjust" && len(avg.adds) != 2 {
						return out, true, "wrapped-sample-lost", fmt.Sprintf("%s decorator wrapped %d deep received %d of 2 samples", kind, depth, len(avg.adds))
					}
					if reached != inner {
						return out, true, "wrapped-traverse", fmt.Sprintf("TraverseDecorators on a decorator wrapped %d deep did not reach the innermost decorator", depth)
					}
					return out, depth > 0, "", ""
				})
			}
		}
	}})
	// clock-based decorators under the virtual clock: frozen after completion; no NaN/Inf (instrumented run only: the
	// unmodified package reads the real clock, so these outputs are not part of the digest)
	chunks = append(chunks, SeqChunk{Name: "c20-clock", NoPristine: true, Gen: func(env *SeqEnv) {
		if env.Pristine {
			return
		}
		// a bar that is first drawn when it has already completed (a short task that finishes between two refreshes)
		for _, el := range []time.Duration{time.Millisecond, 1500 * time.Millisecond, 90 * time.Second} {
			for _, kind := range []string{"elapsed", "avgspeed"} {
				id := fmt.Sprintf("clock first-frame-completed kind=%s elapsed=%v", kind, el)
				env.Case(id, func() (string, bool, string, string) {
					start := mcrt.Now()
					var dec decor.Decorator
					if kind == "elapsed" {
						dec = decor.NewElapsed(decor.ET_STYLE_GO, start)
					} else {
						dec = decor.NewAverageSpeed(decor.SizeB1024(0), "% .1f", start)
					}
					mcrt.Advance(el)
					st := decor.Statistics{Total: 1 << 20, Current: 1 << 20, Completed: true}
					a, _ := dec.Decor(st)
					mcrt.Advance(time.Hour)
					b, _ := dec.Decor(st)
					if a != b {
						return "", true, "changes-after-completion", fmt.Sprintf("%s printed %q then %q after the bar completed", kind, a, b)
					}
					if kind == "elapsed" {
						if got, err := time.ParseDuration(a); err != nil || got != el.Truncate(time.Second) {
							return "", true, "elapsed-first-frame-completed", fmt.Sprintf("a bar first drawn completed after %v: elapsed printed %q", el, a)
						}
					} else if k, d := checkSize(a, int64(math.Round(float64(1<<20)/el.Seconds())), true, 'f', 1); k != "" {
						return "", true, "avgspeed-first-frame-completed", fmt.Sprintf("a bar first drawn completed after %v: average speed printed %q (%s)", el, a, d)
					}
					return "", true, "", ""
				})
			}
		}
		for _, el := range []time.Duration{time.Nanosecond, time.Millisecond, 1500 * time.Millisecond, 90 * time.Second, 2 * time.Hour} {
			for _, cur := range []int64{0, 1, 1 << 20, 1 << 40} {
				for _, kind := range []string{"elapsed", "avgspeed", "avgeta"} {
					id := fmt.Sprintf("clock kind=%s elapsed=%v cur=%d", kind, el, cur)
					env.Case(id, func() (string, bool, string, string) {
						start := mcrt.Now()
						var dec decor.Decorator
						switch kind {
						case "elapsed":
							dec = decor.NewElapsed(decor.ET_STYLE_GO, start)
						case "avgspeed":
							dec = decor.NewAverageSpeed(decor.SizeB1024(0), "% .1f", start)
						case "avgeta":
							dec = decor.NewAverageETA(decor.ET_STYLE_HHMMSS, start, nil)
						}
						mcrt.Advance(el)
						tot := cur*2 + 1
						a, _ := dec.Decor(decor.Statistics{Total: tot, Current: cur})
						mcrt.Advance(el)
						b, _ := dec.Decor(decor.Statistics{Total: tot, Current: cur})
						mcrt.Advance(el) // the bar completes later than its last running frame
						c1, _ := dec.Decor(decor.Statistics{Total: tot, Current: tot, Completed: true})
						mcrt.Advance(time.Hour)
						c2, _ := dec.Decor(decor.Statistics{Total: tot, Current: tot, Completed: true})
						for _, s := range []string{a, b, c1, c2} {
							if badFloatText(s) {
								return "", true, "nan-inf", fmt.Sprintf("%s printed %q", kind, s)
							}
						}
						if kind != "avgeta" && c1 != c2 {
							return "", true, "changes-after-completion", fmt.Sprintf("%s printed %q then %q after the bar completed", kind, c1, c2)
						}
						if kind == "elapsed" {
							got, err := time.ParseDuration(a)
							if err != nil || got != el.Truncate(time.Second) {
								return "", true, "elapsed-value", fmt.Sprintf("elapsed %v printed as %q", el, a)
							}
							// the frame that shows the bar completed carries the time it took, not the last running frame's
							if got, err := time.ParseDuration(c1); err != nil || got != (3*el).Truncate(time.Second) {
								return "", true, "elapsed-at-completion", fmt.Sprintf("completed after %v (last running frame at %v): elapsed printed as %q", 3*el, 2*el, c1)
							}
						}
						if kind == "avgspeed" && el >= time.Millisecond {
							want := float64(tot) / (3 * el).Seconds()
							if want < float64(1<<62) {
								if k, d := checkSize(c1, int64(math.Round(want)), true, 'f', 1); k != "" {
									return "", true, "avgspeed-at-completion", fmt.Sprintf("%d bytes completed after %v: average speed printed %q (%s)", tot, 3*el, c1, d)
								}
							}
						}
						if kind == "avgeta" && cur > 0 && el >= time.Millisecond {
							// remaining = (total-current) * elapsed/current = (cur+1)/cur * elapsed
							want := time.Duration(float64(tot-cur) * float64(el) / float64(cur))
							got, ok := parseClock(a)
							tol := time.Second + time.Duration(float64(want)*1e-6)
							if want < 60*time.Hour && (!ok || got < want-tol || got > want+tol) {
								return "", true, "avgeta-value", fmt.Sprintf("%d of %d after %v: average ETA printed %q, true value %v", cur, tot, el, a, want.Truncate(time.Second))
							}
						}
						if kind == "avgspeed" && cur > 0 {
							want := float64(cur) / el.Seconds()
							if want < float64(1<<62) {
								if k, d := checkSize(a, int64(math.Round(want)), true, 'f', 1); k != "" {
									return "", true, "avgspeed-" + k, d
								}
							}
						}
						return "", true, "", ""
					})
				}
			}
		}
	}})
	// the refill mark (SetRefill: where a resumed task started) is a drawing hint for the bar body; no value decorator
	// may depend on it: each decorator fed the same progress and the same clock prints the same text whatever Refill is
	chunks = append(chunks, SeqChunk{Name: "c20-refill-independent", NoPristine: true, Gen: func(env *SeqEnv) {
		if env.Pristine {
			return
		}
		kinds := []string{"percentage", "counters", "counterskib", "elapsed", "avgspeed", "avgeta", "ewmaeta", "ewmaspeed"}
		mk := func(kind string, start time.Time) decor.Decorator {
			switch kind {
			case "percentage":
				return decor.NewPercentage("% .2f")
			case "counters":
				return decor.CountersNoUnit("%d / %d")
			case "counterskib":
				return decor.CountersKibiByte("% .2f / % .2f")
			case "elapsed":
				return decor.NewElapsed(decor.ET_STYLE_GO, start)
			case "avgspeed":
				return decor.NewAverageSpeed(decor.SizeB1024(0), "% .2f", start)
			case "avgeta":
				return decor.NewAverageETA(decor.ET_STYLE_GO, start, nil)
			case "ewmaeta":
				return decor.MovingAverageETA(decor.ET_STYLE_GO, constAverage(2.5e6), nil)
			}
			return decor.MovingAverageSpeed(decor.SizeB1024(0), "% .2f", constAverage(1e6))
		}
		for _, kind := range kinds {
			for _, tot := range []int64{10, 1000, 1 << 30} {
				for _, cur := range []int64{1, tot / 4, tot / 2, tot - 1} {
					for ri, refill := range []int64{cur, cur / 2, 1} {
						kind, tot, cur, refill := kind, tot, cur, refill
						id := fmt.Sprintf("refill kind=%s total=%d current=%d refill#%d", kind, tot, cur, ri)
						env.Case(id, func() (string, bool, string, string) {
							run := func(refill int64) []string {
								start := mcrt.Now()
								dec := mk(kind, start)
								var out []string
								for step := int64(1); step <= 3; step++ {
									mcrt.Advance(1500 * time.Millisecond)
									c := cur * step / 3
									if step == 3 {
										c = cur
									}
									r := refill
									if r > c {
										r = c
									}
									if ed, ok := dec.(decor.EwmaDecorator); ok {
										ed.EwmaUpdate(1, 1500*time.Millisecond)
									}
									text, _ := dec.Decor(decor.Statistics{Total: tot, Current: c, Refill: r})
									out = append(out, text)
								}
								return out
							}
							plain, marked := run(0), run(refill)
							for i := range plain {
								if badFloatText(marked[i]) {
									return "", true, "nan-inf", fmt.Sprintf("%s with a refill mark printed %q", kind, marked[i])
								}
								if plain[i] != marked[i] {
									return "", true, "depends-on-refill", fmt.Sprintf("%s at %d of %d printed %q, and %q once a refill mark of %d was set", kind, cur, tot, plain[i], marked[i], refill)
								}
							}
							return strings.Join(marked, "|"), true, "", ""
						})
					}
				}
			}
		}
	}})
	return chunks
}

// constAverage is a moving average that has settled on one value.
type constAverage float64

func (c constAverage) Add(float64)    {}
func (c constAverage) Set(float64)    {}
func (c constAverage) Value() float64 { return float64(c) }

func init() {
	SeqFamilies["C20"] = c20Chunks
	register(&Family{
		Property: "C20",
		Rule: "also: every value decorator prints the same text whatever the refill mark is; " +
			"sizes: v in [0,1100] (thorough [0,20500]) plus u-1,u,u+1,1.5u,999.95u,... for every unit of both systems, 2^k+-1, 2^63-1 x 18 (26) verb/flag/precision combinations through SizeB1024/SizeB1000 and through Counters/Total/Current/InvertedCurrent; percentage: all 0<=current<=total<=40 plus the C08 boundary lattice x 8 formats; durations 0..200 s (thorough 0..4000 s) plus minute/hour/day boundaries x 4 styles through the clock-free EwmaETA; estimator sample sequences up to length 3 (4) over n in {-1,0,1,1024,10^6} x dur in {0,1ms,1s} for MovingAverageSpeed and MovingAverageETA with a recording average; Elapsed/AverageSpeed/AverageETA under the virtual clock. " +
			"Oracle: the printed number times the printed unit reads back to the true value within half a unit of the last printed digit; the unit is the largest that fits; no NaN/Inf/%!verb; durations parse back exactly (truncated to the style's resolution); sum of n*value delivered to the moving average == sum of durations fed (zero-progress samples carried); elapsed and average speed frozen after completion. All clock-free cases are re-executed on the unmodified package.",
		Items: func(tier string) []Item { return seqItems("C20", tier) },
	})
}
