package scen

import (
	"fmt"
	"strings"

	"mcrt"
)

// C15: a render error shuts the container down cleanly.

func c15Oracle(sp *Spec, x *X, res *mcrt.Result) (string, string) {
	if x.WaitStep == 0 {
		return "wait-not-returned", "Progress.Wait did not return"
	}
	for _, c := range x.Calls {
		if c.Ret == 0 {
			return "call-blocked", fmt.Sprintf("call %s of client %d never returned", c.Op, c.Client)
		}
	}
	if sp.Notifier && len(x.Notified) != 1 {
		return "notifier-count", fmt.Sprintf("shutdown notifier delivered %d values", len(x.Notified))
	}
	if ids, ok := notifiedIDs(x); ok && sp.Notifier {
		// the error ends the container; it removes no bar other than (possibly) the failing one
		for b, bs := range sp.Bars {
			if _, _, added := addRet(x, b); !added || removable(sp, x, b) || bs.FillErrAt > 0 || bs.ExtErrAt > 0 {
				continue
			}
			found := false
			for _, id := range ids {
				found = found || id == b
			}
			if !found {
				return "notifier-missing-bar", fmt.Sprintf("bar %d was never removed, yet the shutdown notifier lists only %v", b, ids)
			}
		}
	}
	if x.FaultStep == 0 {
		// the fault site was not reached (all bars finished first): nothing to check beyond termination
		if x.Debug.Len() != 0 {
			return "debug-without-fault", fmt.Sprintf("debug output %q without an injected fault", x.Debug.String())
		}
		return "", ""
	}
	want := x.FaultText + "\n"
	if sp.DebugNil {
		// WithDebugOutput(nil): the error goes nowhere; everything else holds as usual
	} else if got := x.Debug.String(); x.FaultText == "*" {
		// the terminal was closed: the error text is the operating system's; exactly one line is required
		if strings.Count(got, "\n") != 1 || !strings.HasSuffix(got, "\n") || len(got) < 2 {
			return "debug-output", fmt.Sprintf("debug output %q, want exactly one error line", got)
		}
	} else if got != want {
		return "debug-output", fmt.Sprintf("debug output %q, want the error once: %q", got, want)
	}
	for i, w := range x.Writes {
		if x.FaultText == "*" {
			break // pty: writes are not recorded per call
		}
		if w.Step > x.FaultStep && w.Data != "!ERR" {
			return "frame-after-error", fmt.Sprintf("output write %d happened after the failing cycle: %q", i, w.Data)
		}
	}
	for _, c := range x.Calls {
		if c.Inv >= x.WaitStep && strings.HasPrefix(c.Op, "get") && c.Res != "skipped" && !strings.Contains(c.Res, "run=false") {
			return "bar-still-running", fmt.Sprintf("%s after Wait: %s", c.Op, c.Res)
		}
	}
	if x.EventCount("leak") > 0 {
		return "leak", strings.Join(x.Notes, "; ")
	}
	return "", ""
}

func c15Programs(tier string) ([]*Spec, [][]string) {
	var out []*Spec
	var tags [][]string
	ks := []int{1, 2}
	if tier == "thorough" {
		ks = []int{1, 2, 3}
	}
	for _, rf := range []string{"auto", "manual"} {
		for _, site := range []string{"fill", "ext", "write"} {
			for _, k := range ks {
				for _, layout := range []string{"plain", "sync-equal", "sync-failing-fewer", "sync-failing-more"} {
					for nf := 1; nf <= 3; nf++ {
						n, fb := 1, 0 // bars, failing bar
						if nf >= 2 {
							n, fb = 2, nf-2
						}
						if n == 1 && layout != "plain" {
							continue
						}
						if site == "write" && fb == 1 {
							continue
						}
						sp := &Spec{Name: fmt.Sprintf("c15-%s@%d-%s-n%d-f%d", site, k, layout, n, fb), Refresh: rf, Q: -1, Notifier: true}
						for i := 0; i < n; i++ {
							bs := BarSpec{Total: 5}
							switch layout {
							case "sync-equal":
								bs.Pre = []DecorSpec{syncD(2, 3)}
							case "sync-failing-fewer":
								if i != fb {
									bs.Pre = []DecorSpec{syncD(2, 3)}
									bs.App = []DecorSpec{syncD(1)}
								}
							case "sync-failing-more":
								bs.Pre = []DecorSpec{syncD(2, 3)}
								if i == fb {
									bs.App = []DecorSpec{syncD(1)}
								}
							}
							sp.Bars = append(sp.Bars, bs)
							sp.Main = append(sp.Main, Op{K: "add", B: i})
							ops := []Op{{K: "incr", B: i, N: 1}}
							if rf == "manual" {
								for j := 0; j < k+1; j++ {
									ops = append(ops, Op{K: "refresh"})
								}
							}
							sp.Clients = append(sp.Clients, ops)
							sp.Late = append(sp.Late, Op{K: "get", B: i})
						}
						switch site {
						case "fill":
							sp.Bars[fb].FillErrAt = k
						case "ext":
							sp.Bars[fb].ExtErrAt = k
							sp.Bars[fb].ExtRows = 1
							sp.Bars[fb].ExtRev = k%2 == 0 // rows above the bar for even k
						case "write":
							sp.FailWrite = k
						}
						t := []string{"fault:" + site}
						if layout != "plain" && n > 1 {
							t = append(t, "fault+sync-columns")
						}
						out = append(out, sp)
						tags = append(tags, t)
					}
				}
			}
		}
	}
	// the debug output option given as nil (documented to mean: discard)
	for _, rf := range []string{"auto", "manual"} {
		for _, site := range []string{"fill", "ext", "write"} {
			sp := &Spec{Name: "c15-" + site + "-debug-nil", Refresh: rf, Q: -1, DebugNil: true, Notifier: true}
			sp.Bars = []BarSpec{{Total: 5}, {Total: 5}}
			sp.Main = []Op{{K: "add", B: 0}, {K: "add", B: 1}}
			for i := 0; i < 2; i++ {
				ops := []Op{{K: "incr", B: i, N: 1}}
				if rf == "manual" {
					ops = append(ops, Op{K: "refresh"}, Op{K: "refresh"}, Op{K: "refresh"})
				}
				sp.Clients = append(sp.Clients, ops)
				sp.Late = append(sp.Late, Op{K: "get", B: i})
			}
			switch site {
			case "fill":
				sp.Bars[1].FillErrAt = 2
			case "ext":
				sp.Bars[1].ExtErrAt, sp.Bars[1].ExtRows = 2, 1
			case "write":
				sp.FailWrite = 2
			}
			out = append(out, sp)
			tags = append(tags, []string{"fault:" + site})
		}
	}
	// the output fails in a frame that leaves no line to overwrite: only text (no bars), or pop mode's last pop frame
	for _, rf := range []string{"auto", "manual"} {
		for _, k := range []int{1, 2, 3} {
			sp := &Spec{Name: fmt.Sprintf("c15-lineless-text@%d", k), Refresh: rf, Q: -1, FailWrite: k}
			ops := []Op{{K: "write", S: "line-a\n"}}
			if rf == "manual" {
				ops = append(ops, Op{K: "refresh"})
			}
			ops = append(ops, Op{K: "write", S: "line-b\n"})
			if rf == "manual" {
				ops = append(ops, Op{K: "refresh"})
			}
			ops = append(ops, Op{K: "write", S: "line-c\n"})
			if rf == "manual" {
				ops = append(ops, Op{K: "refresh"}, Op{K: "refresh"})
			}
			sp.Clients = [][]Op{ops}
			out = append(out, sp)
			tags = append(tags, []string{"fault:write"})
			sp2 := &Spec{Name: fmt.Sprintf("c15-lineless-pop@%d", k), Refresh: rf, Q: -1, FailWrite: k + 1, Pop: true}
			sp2.Bars = []BarSpec{{Total: 1}}
			sp2.Main = []Op{{K: "add", B: 0}}
			c := []Op{{K: "incr", B: 0, N: 1}}
			if rf == "manual" {
				c = append(c, Op{K: "refresh"}, Op{K: "refresh"}, Op{K: "refresh"}, Op{K: "refresh"}, Op{K: "refresh"})
			}
			sp2.Clients = [][]Op{c}
			sp2.Late = []Op{{K: "get", B: 0}}
			out = append(out, sp2)
			tags = append(tags, []string{"fault:write"})
		}
	}
	// the terminal-size query fails: the output is a pseudo terminal that is closed under the container's feet
	for _, rf := range []string{"auto", "manual"} {
		for _, n := range []int{1, 2} {
			for _, when := range []string{"early", "late"} {
				sp := &Spec{Name: fmt.Sprintf("c15-termsize-%s-n%d", when, n), Refresh: rf, Q: -1, Pty: true, TermW: 30, TermH: 6}
				for i := 0; i < n; i++ {
					sp.Bars = append(sp.Bars, BarSpec{Total: 5, Pre: []DecorSpec{syncD(2, 3)}})
					sp.Main = append(sp.Main, Op{K: "add", B: i})
					sp.Late = append(sp.Late, Op{K: "get", B: i})
				}
				ops := []Op{{K: "incr", B: 0, N: 1}}
				if when == "late" && rf == "manual" {
					ops = append(ops, Op{K: "refresh"})
				}
				ops = append(ops, Op{K: "closepty"})
				if rf == "manual" {
					ops = append(ops, Op{K: "refresh"}, Op{K: "refresh"})
				}
				sp.Clients = [][]Op{ops}
				out = append(out, sp)
				tags = append(tags, []string{"fault:termsize"})
			}
		}
	}
	for _, sp := range closingWritePrograms("c15") {
		out = append(out, sp)
		tags = append(tags, []string{"fault:write"})
	}
	return out, tags
}

// closingWritePrograms: the output starts failing at write k while the bars end normally or by cancellation: for
// some k the failing write is a render of the closing loop (after the container is done), not a regular cycle.
func closingWritePrograms(prefix string) []*Spec {
	var out []*Spec
	for _, k := range []int{1, 2, 3, 4, 5} {
		for _, how := range []string{"complete", "cancel"} {
			for _, n := range []int{1, 2} {
				sp := &Spec{Name: fmt.Sprintf("%s-closing-write@%d-%s-n%d", prefix, k, how, n), Refresh: "auto", Q: -1, FailWrite: k, Notifier: true}
				for i := 0; i < n; i++ {
					sp.Bars = append(sp.Bars, BarSpec{Total: 1, Pre: []DecorSpec{syncD(2, 1)}})
					sp.Main = append(sp.Main, Op{K: "add", B: i})
					if how == "complete" {
						sp.Clients = append(sp.Clients, []Op{{K: "incr", B: i, N: 1}})
					}
					sp.Late = append(sp.Late, Op{K: "get", B: i})
				}
				if how == "cancel" {
					sp.Clients = append(sp.Clients, []Op{{K: "cancel"}})
				}
				out = append(out, sp)
			}
		}
	}
	return out
}

func init() {
	register(&Family{
		Property: "C15",
		Rule: "fault sites {k-th Fill of bar i, k-th extender call of bar i, k-th output write} for k in 1..2 (3 thorough) x 1..2 bars x layouts {no synchronised decorators, equal columns, failing bar has fewer columns than the other, failing bar has more} x refresh{auto,manual}; bars never complete on their own, so only the error ends the container; every schedule within the deviation bound. " +
			"Oracle: Wait and every call return, the debug output is exactly the error text and a newline once, no output write begins after the failing cycle, all bars stopped, no library thread alive at quiescence. The terminal-size query fault: the output is a pseudo terminal whose slave end is closed by a client while the container renders (1..2 bars, auto and manual).",
		Items: func(tier string) []Item {
			var items []Item
			bound := 1
			if tier == "thorough" {
				bound = 2
			}
			sps, tags := c15Programs(tier)
			for i, sp := range sps {
				items = append(items, specItemsMixed("C15", sp, bound, 1, allStrats, tags[i], c15Oracle)...)
			}
			return items
		},
	})
}
