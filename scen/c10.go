package scen

import (
	"fmt"
	"strings"

	"mcrt"
)

// C10 (a): concurrent bar operations are linearizable with respect to the sequential rules.

type linOp struct {
	call Call
	op   Op
}

// linStep applies one operation to a reference state and reports whether the
// recorded result is possible; for mutators issued after the bar reached a
// terminal state both "ignored" and "still applied by the not yet stopped bar
// goroutine" are legal, so it may return two successor states.
func linStep(st refBar, o Op, res string) []refBar {
	terminal := st.done || st.aborted
	switch o.K {
	case "cur":
		if res == fmt.Sprint(st.current) {
			return []refBar{st}
		}
		return nil
	case "comp":
		if res == fmt.Sprint(st.done) {
			return []refBar{st}
		}
		return nil
	case "abrt":
		if res == fmt.Sprint(st.aborted) {
			return []refBar{st}
		}
		return nil
	case "id":
		if res == "0" {
			return []refBar{st}
		}
		return nil
	}
	var co c09Op
	switch o.K {
	case "incr":
		co = c09Op{k: "IncrInt64", n: o.N}
	case "setcur", "ewmaset":
		co = c09Op{k: "SetCurrent", n: o.N}
	case "ewma":
		co = c09Op{k: "IncrInt64", n: o.N}
	case "settotal":
		co = c09Op{k: "settotal", n: o.N, flag: o.F}
	case "trigger":
		co = c09Op{k: "trigger"}
	case "refill":
		co = c09Op{k: "SetRefill", n: o.N}
	case "abort":
		co = c09Op{k: "abort", flag: o.F}
	default:
		return []refBar{st}
	}
	if !terminal {
		n := st
		n.apply(co)
		return []refBar{n}
	}
	// terminal: ignored, or applied to the raw counters (the completion state itself never changes back for
	// the non-decreasing updates used here)
	out := []refBar{st}
	raw := st
	switch co.k {
	case "IncrInt64":
		raw.current += co.n
		if raw.current >= raw.total {
			raw.current = raw.total
		}
	case "SetRefill":
		if co.n < raw.current {
			raw.refill = co.n
		} else {
			raw.refill = raw.current
		}
	}
	if raw != st {
		out = append(out, raw)
	}
	return out
}

// linearizable: is there a total order of the calls, consistent with real time (a call that returned
// before another was invoked comes first), under which every result matches the reference?
func linearizable(init refBar, ops []linOp) bool {
	n := len(ops)
	type key struct {
		mask int
		st   refBar
	}
	dead := map[key]bool{}
	var rec func(mask int, st refBar) bool
	rec = func(mask int, st refBar) bool {
		if mask == 1<<n-1 {
			return true
		}
		k := key{mask, st}
		if dead[k] {
			return false
		}
		for i := 0; i < n; i++ {
			if mask&(1<<i) != 0 {
				continue
			}
			// i is minimal: no pending call returned before i was invoked
			ok := true
			for j := 0; j < n; j++ {
				if j != i && mask&(1<<j) == 0 && ops[j].call.Ret != 0 && ops[j].call.Ret <= ops[i].call.Inv {
					ok = false
					break
				}
			}
			if !ok {
				continue
			}
			for _, ns := range linStep(st, ops[i].op, ops[i].call.Res) {
				if rec(mask|1<<i, ns) {
					return true
				}
			}
		}
		dead[k] = true
		return false
	}
	return rec(0, init)
}

func c10Oracle(sp *Spec, x *X, res *mcrt.Result) (string, string) {
	if x.WaitStep == 0 {
		return "wait-not-returned", "Progress.Wait did not return"
	}
	// collect the calls on bar 0 with their operations
	var ops []linOp
	find := func(client int, name string, used map[int]bool) (Op, bool) {
		var list []Op
		switch {
		case client == 0:
			list = append(append(append([]Op{}, sp.Main...), sp.Main2...), sp.Late...)
		default:
			list = sp.Clients[client-1]
		}
		for _, o := range list {
			if o.String() == name {
				return o, true
			}
		}
		return Op{}, false
	}
	for _, c := range x.Calls {
		if c.Res == "skipped" || c.Ret == 0 {
			continue
		}
		o, ok := find(c.Client, c.Op, nil)
		if !ok || o.B != 0 {
			continue
		}
		switch o.K {
		case "incr", "setcur", "settotal", "trigger", "refill", "abort", "cur", "comp", "abrt", "id", "ewma", "ewmaset":
			ops = append(ops, linOp{c, o})
		}
	}
	if len(ops) > 14 {
		return "", ""
	}
	if !linearizable(newRefBar(sp.Bars[0].Total), ops) {
		var hs []string
		for _, o := range ops {
			hs = append(hs, fmt.Sprintf("c%d:%s=%s[%d,%d]", o.call.Client, o.call.Op, o.call.Res, o.call.Inv, o.call.Ret))
		}
		return "not-linearizable", "no sequential order explains the history " + strings.Join(hs, " ")
	}
	return "", ""
}

func c10Programs(tier string) []*Spec {
	var out []*Spec
	type alpha struct {
		name  string
		total int64
		ops   []Op
	}
	alphas := []alpha{
		{"untriggered", 0, []Op{{K: "incr", N: 1}, {K: "incr", N: 2}, {K: "refill", N: 1}, {K: "settotal", N: 5}, {K: "cur"}, {K: "comp"}, {K: "setcur", N: 4}}},
		{"triggered", 3, []Op{{K: "incr", N: 1}, {K: "incr", N: 2}, {K: "cur"}, {K: "comp"}, {K: "refill", N: 1}}},
		{"terminal", 3, []Op{{K: "incr", N: 2}, {K: "abort"}, {K: "abrt"}, {K: "comp"}, {K: "cur"}}},
		{"trigger", 0, []Op{{K: "incr", N: 1}, {K: "trigger"}, {K: "settotal", N: 2, F: true}, {K: "comp"}, {K: "cur"}, {K: "id"}}},
		{"adopt", 0, []Op{{K: "incr", N: 5}, {K: "settotal", N: -1, F: true}, {K: "cur"}, {K: "settotal", N: -1}}},
		{"ewma", 10, []Op{{K: "ewmaset", N: 5}, {K: "setcur", N: 6}, {K: "ewma", N: 1}, {K: "cur"}, {K: "comp"}}},
	}
	for _, al := range alphas {
		n := len(al.ops)
		// two client threads with one or two operations each
		var progs [][][]Op
		for a := 0; a < n; a++ {
			for b := a; b < n; b++ {
				progs = append(progs, [][]Op{{al.ops[a]}, {al.ops[b]}})
				for c := 0; c < n; c++ {
					if tier == "thorough" || (a+b+c)%3 == 0 {
						progs = append(progs, [][]Op{{al.ops[a], al.ops[c]}, {al.ops[b]}})
					}
				}
			}
		}
		if tier == "thorough" {
			for a := 0; a < n; a++ {
				for b := a; b < n; b++ {
					for c := b; c < n; c++ {
						progs = append(progs, [][]Op{{al.ops[a]}, {al.ops[b]}, {al.ops[c]}})
					}
				}
			}
		}
		for pi, pr := range progs {
			for _, rf := range []string{"manual", "auto", "none"} {
				if rf != "manual" && pi%4 != 0 && tier != "thorough" {
					continue
				}
				sp := &Spec{Name: fmt.Sprintf("c10-%s-%d", al.name, pi), Refresh: rf, Q: -1}
				sp.Bars = []BarSpec{{Total: al.total}, {Total: 1}}
				sp.Main = []Op{{K: "add", B: 0}}
				if pi%2 == 1 {
					sp.Main = append(sp.Main, Op{K: "add", B: 1}, Op{K: "incr", B: 1, N: 1})
				}
				for _, cl := range pr {
					sp.Clients = append(sp.Clients, append([]Op{}, cl...))
				}
				if rf == "manual" {
					sp.Clients = append(sp.Clients, []Op{{K: "refresh"}, {K: "refresh"}})
				}
				// quiescence: main joins the clients, reads, and only then ends the container
				sp.Main2 = []Op{{K: "join"}, {K: "cur"}, {K: "comp"}, {K: "abrt"}, {K: "cancel"}}
				out = append(out, sp)
			}
		}
	}
	return out
}

func init() {
	register(&Family{
		Property: "C10",
		Rule: "linearizability: 2 (thorough also 3) client threads with 1..2 operations each on one shared bar from six alphabets (never-terminal: IncrBy 1/2, SetRefill, SetTotal, SetCurrent, Current, Completed; triggered: increments reaching the total; terminal: Abort racing with increments; trigger: EnableTriggerComplete/SetTotal(complete) racing with increments; adopt: SetTotal(-1, true/false) racing with IncrBy 5 and Current; ewma: EwmaSetCurrent, SetCurrent, EwmaIncrInt64 on a total of 10), plus a refresher thread (manual), ticks (auto) or no rendering, a second bar in half of the programs, and a canceller; every schedule within the deviation bound. " +
			"Oracle: the invoke/return history of every execution (scheduler steps as timestamps) must have a linearization under the C09 reference model (exact search over all orders consistent with real time; for mutators issued after a terminal state both 'ignored' and 'applied to the raw counters' are accepted); main's reads after quiescence are part of the history, so lost or torn updates show up as an unexplainable Current.",
		Items: func(tier string) []Item {
			var items []Item
			bound := 2
			if tier == "thorough" {
				bound = 2
			}
			for _, sp := range c10Programs(tier) {
				b := bound
				if sp.Refresh != "none" {
					b = 1
				}
				items = append(items, specItems("C10", sp, b, []int{mcrt.StratFIFO, mcrt.StratNewest}, nil, c10Oracle)...)
			}
			// race half: the same kind of programs, plus getters during rendering, shutdown and after it, in the race variant
			for _, sp := range c10RacePrograms(tier) {
				its := specItems("C10", sp, 1, []int{mcrt.StratFIFO}, []string{"race-variant"}, func(*Spec, *X, *mcrt.Result) (string, string) { return "", "" })
				for i := range its {
					its[i].Race = true
					its[i].Name += "/race"
				}
				items = append(items, its...)
			}
			return items
		},
	})
}

func c10RacePrograms(tier string) []*Spec {
	var out []*Spec
	getters := []Op{{K: "cur"}, {K: "comp"}, {K: "abrt"}, {K: "id"}, {K: "isrun"}}
	for _, rf := range []string{"manual", "auto", "none"} {
		for _, total := range []int64{2, 0} {
			for gi, g := range getters {
				if tier != "thorough" && rf != "manual" && gi > 1 {
					continue
				}
				sp := &Spec{Name: fmt.Sprintf("c10r-get-%s-t%d", g.K, total), Refresh: rf, Q: -1}
				sp.Bars = []BarSpec{{Total: total, Pre: []DecorSpec{{Ewma: true, Sync: true, Widths: []int{2, 3}}}}, {Total: 1, Pre: []DecorSpec{syncD(1)}}}
				sp.Main = []Op{{K: "add", B: 0}, {K: "add", B: 1}}
				mut := []Op{{K: "incr", N: 1}, {K: "ewma", N: 1}}
				if total == 0 {
					mut = append(mut, Op{K: "settotal", N: -1, F: true})
				}
				obs := []Op{g, g, {K: "barwait"}, g, g}
				sp.Clients = [][]Op{mut, obs, {{K: "incr", B: 1, N: 1}, {K: "prio", B: 1, N: 0}}}
				if rf == "manual" {
					sp.Clients = append(sp.Clients, []Op{{K: "refresh"}, {K: "refresh"}, {K: "refresh"}})
				}
				sp.Late = []Op{g, {K: "get"}}
				out = append(out, sp)
			}
		}
		// the library's own moving-average decorators: updates run in helper goroutines while frames are drawn
		for _, total := range []int64{2, 0} {
			sp := &Spec{Name: fmt.Sprintf("c10r-ewma-t%d", total), Refresh: rf, Q: -1}
			sp.Bars = []BarSpec{{Total: total, Pre: []DecorSpec{{Builtin: "ewmaeta"}}, App: []DecorSpec{{Builtin: "ewmaspeed", Depth: 1}, {Builtin: "percentage", Sync: true}}}, {Total: 5, App: []DecorSpec{{Builtin: "counters", Sync: true}}}}
			sp.Main = []Op{{K: "add", B: 0}, {K: "add", B: 1}}
			mut := []Op{{K: "ewma", N: 1}, {K: "ewmaset", N: 2}, {K: "ewma", N: 1}}
			if total == 0 {
				mut = append(mut, Op{K: "settotal", N: -1, F: true})
			}
			sp.Clients = [][]Op{mut, {{K: "incr", B: 1, N: 1}, {K: "get", B: 0}, {K: "incr", B: 1, N: 4}}}
			if rf == "manual" {
				sp.Clients = append(sp.Clients, []Op{{K: "refresh"}, {K: "refresh"}, {K: "refresh"}, {K: "refresh"}})
			}
			out = append(out, sp)
		}
		// one thread-safe moving average shared by the ETA decorators of two bars
		{
			sp := &Spec{Name: "c10r-shared-average", Refresh: rf, Q: -1}
			sp.Bars = []BarSpec{{Total: 5, App: []DecorSpec{{Builtin: "sharedavg-eta"}}}, {Total: 5, App: []DecorSpec{{Builtin: "sharedavg-eta"}}}}
			sp.Main = []Op{{K: "add", B: 0}, {K: "add", B: 1}}
			// only bar 0 feeds the average (its update goroutines take the lock); bar 1 just reads it when it is drawn
			sp.Clients = [][]Op{{{K: "ewma", B: 0, N: 1}, {K: "ewma", B: 0, N: 1}, {K: "ewma", B: 0, N: 3}}, {{K: "incr", B: 1, N: 2}, {K: "incr", B: 1, N: 3}}}
			if rf == "manual" {
				sp.Clients = append(sp.Clients, []Op{{K: "refresh"}, {K: "refresh"}, {K: "refresh"}})
			}
			out = append(out, sp)
		}
		// pop-completed mode: the container hands finished bars back to the heap manager with a new priority
		{
			sp := &Spec{Name: "c10r-pop", Refresh: rf, Q: -1, Pop: true}
			sp.Bars = []BarSpec{{Total: 1}, {Total: 1}, {Total: 3}}
			sp.Main = []Op{{K: "add", B: 0}, {K: "add", B: 1}, {K: "add", B: 2}}
			sp.Clients = [][]Op{{{K: "incr", B: 1, N: 1}, {K: "setprio", B: 2, N: 4}}, {{K: "incr", B: 0, N: 1}}, {{K: "incr", B: 2, N: 1}, {K: "incr", B: 2, N: 2}}}
			if rf == "manual" {
				sp.Clients = append(sp.Clients, []Op{{K: "refresh"}, {K: "refresh"}, {K: "refresh"}, {K: "refresh"}, {K: "refresh"}})
			}
			out = append(out, sp)
		}
		// one BarExtender option value passed to several bars
		{
			sp := &Spec{Name: "c10r-shared-extender", Refresh: rf, Q: -1, SharedExtender: true}
			sp.Bars = []BarSpec{{Total: 2, ExtRows: 1}, {Total: 2, ExtRows: 1}, {Total: 2, ExtRows: 1}}
			sp.Main = []Op{{K: "add", B: 0}, {K: "add", B: 1}, {K: "add", B: 2}}
			for i := 0; i < 3; i++ {
				sp.Clients = append(sp.Clients, completeOps(i, 2))
			}
			if rf == "manual" {
				sp.Clients = append(sp.Clients, []Op{{K: "refresh"}, {K: "refresh"}, {K: "refresh"}})
			}
			out = append(out, sp)
		}
		// TraverseDecorators / DecoratorAverageAdjust callbacks against rendering of the same decorators
		{
			sp := &Spec{Name: "c10r-avgadj", Refresh: rf, Q: -1}
			sp.Bars = []BarSpec{{Total: 5, Pre: []DecorSpec{{Builtin: "avgeta"}}, App: []DecorSpec{{Builtin: "elapsed"}, {Builtin: "avgspeed"}}}, {Total: 5, App: []DecorSpec{{Builtin: "avgspeed", Depth: 1}}}}
			sp.Main = []Op{{K: "add", B: 0}, {K: "add", B: 1}}
			adj := []Op{{K: "avgadj", B: 0}, {K: "traverse", B: 0}, {K: "avgadj", B: 1}}
			mut := []Op{{K: "incr", B: 0, N: 1}, {K: "incr", B: 1, N: 1}, {K: "incr", B: 0, N: 4}, {K: "incr", B: 1, N: 4}}
			sp.Clients = [][]Op{adj, mut}
			if rf == "manual" {
				sp.Clients = append(sp.Clients, []Op{{K: "refresh"}, {K: "refresh"}, {K: "refresh"}})
			}
			out = append(out, sp)
		}
		// several bars, each with its own instance of the built-in size decorators, rendered in the same cycles
		{
			sp := &Spec{Name: "c10r-sizes", Refresh: rf, Q: -1}
			for i := 0; i < 3; i++ {
				sp.Bars = append(sp.Bars, BarSpec{Total: 3 << 20, Pre: []DecorSpec{{Builtin: "counterskib"}}, App: []DecorSpec{{Builtin: "counterskb"}, {Builtin: "percentage"}}})
				sp.Main = append(sp.Main, Op{K: "add", B: i})
				ops := []Op{{K: "incr", B: i, N: 1 << 20}, {K: "incr", B: i, N: 2 << 20}}
				if rf == "manual" {
					ops = append(ops, Op{K: "refresh"}, Op{K: "refresh"})
				}
				sp.Clients = append(sp.Clients, ops)
			}
			out = append(out, sp)
		}
		// writers, priority changes, abort and shutdown racing with rendering
		sp := &Spec{Name: "c10r-mixed", Refresh: rf, Q: -1, Notifier: true}
		sp.Bars = []BarSpec{{Total: 3, Pre: []DecorSpec{syncD(2, 1)}, ExtRows: 1}, {Total: 3, Pre: []DecorSpec{syncD(1, 3)}}}
		sp.Main = []Op{{K: "add", B: 0}, {K: "add", B: 1}}
		sp.Clients = [][]Op{{{K: "incr", B: 0, N: 3}, {K: "get", B: 0}}, {{K: "write", S: "w\n"}, {K: "abort", B: 1}, {K: "get", B: 1}}, {{K: "prio", B: 0, N: 7, F: true}, {K: "refill", B: 0, N: 1}, {K: "traverse", B: 1}}}
		if rf == "manual" {
			sp.Clients = append(sp.Clients, []Op{{K: "refresh"}, {K: "refresh"}, {K: "refresh"}})
		}
		sp.Late = []Op{{K: "get", B: 0}, {K: "get", B: 1}}
		out = append(out, sp)
		sp2 := *sp
		sp2.Name = "c10r-shutdown"
		sp2.Clients = append(append([][]Op{}, sp.Clients...), []Op{{K: "shutdown"}})
		out = append(out, &sp2)
	}
	return out
}
