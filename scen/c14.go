package scen

import (
	"fmt"
	"sort"
	"strings"

	"mcrt"
)

// C14: cancellation and Shutdown stop everything, once, wherever they land.
// C16: no goroutine outlives its container.

func c14Oracle(sp *Spec, x *X, res *mcrt.Result) (string, string) {
	if x.WaitStep == 0 {
		return "wait-not-returned", "Progress.Wait did not return after cancellation"
	}
	for _, c := range x.Calls {
		if c.Ret == 0 {
			return "call-blocked", fmt.Sprintf("call %s of client %d never returned", c.Op, c.Client)
		}
	}
	// late getters: every bar stopped; unfinished bars aborted
	for _, c := range x.Calls {
		if c.Inv < x.WaitStep || !strings.HasPrefix(c.Op, "get") || c.Res == "skipped" {
			continue
		}
		if !strings.Contains(c.Res, "run=false") {
			return "bar-still-running", fmt.Sprintf("%s after Wait: %s", c.Op, c.Res)
		}
		comp := strings.Contains(c.Res, "comp=true")
		ab := strings.Contains(c.Res, "abort=true")
		if comp == ab {
			return "terminal-state", fmt.Sprintf("%s after Wait: %s (exactly one of completed/aborted expected)", c.Op, c.Res)
		}
	}
	// listeners: exactly once per bar that was added
	for b, bs := range sp.Bars {
		if _, _, ok := addRet(x, b); !ok {
			continue
		}
		for side, grp := range [][]DecorSpec{bs.Pre, bs.App} {
			for k, d := range grp {
				if !d.Listen {
					continue
				}
				name := fmt.Sprintf("d%d%c%d", b, "pa"[side], k)
				if x.ShutCountAtWait(name) != 1 {
					return "listener-before-wait", fmt.Sprintf("shutdown listener %s (wrapped %d deep) had been notified %d times when Wait returned", name, d.Depth, x.ShutCountAtWait(name))
				}
				if x.ShutCount(name) != 1 {
					return "listener-count", fmt.Sprintf("shutdown listener %s (wrapped %d deep) notified %d times", name, d.Depth, x.ShutCount(name))
				}
			}
		}
	}
	if sp.Notifier {
		ids, ok := notifiedIDs(x)
		if !ok {
			return "notifier-count", fmt.Sprintf("shutdown notifier delivered %d values", len(x.Notified))
		}
		// bars still in the container: all added bars that no frame dropped
		var want []int
		frames := x.Frames()
		for b := range sp.Bars {
			if _, _, ok := addRet(x, b); !ok || sp.Bars[b].After > 0 {
				continue
			}
			dropped := false
			if removable(sp, x, b) {
				term := 0
				for _, f := range frames {
					if r := f.Row(b); r != nil && r.Flags != "R" {
						term++
					}
				}
				if term >= 2 {
					dropped = true
				}
				if term == 1 {
					continue // may or may not have been dropped by the cycle in progress: not checked
				}
			}
			if !dropped {
				want = append(want, b)
			}
		}
		sort.Ints(want)
		got := map[int]bool{}
		for _, id := range ids {
			if got[id] {
				return "notifier-duplicate", fmt.Sprintf("notifier lists bar %d twice: %v", id, ids)
			}
			got[id] = true
		}
		for _, w := range want {
			if !got[w] {
				return "notifier-set", fmt.Sprintf("notifier listed %v, bar %d is still in the container", ids, w)
			}
		}
	}
	if x.EventCount("leak") > 0 {
		return "leak", strings.Join(x.Notes, "; ")
	}
	return "", ""
}

func listenD(depth int, sync bool) DecorSpec {
	return DecorSpec{Listen: true, Depth: depth, Sync: sync, Widths: []int{2, 4}}
}

func listenReadD() DecorSpec {
	return DecorSpec{Listen: true, ListenReads: true, Widths: []int{3}}
}

func c14Programs(tier string) []*Spec {
	var out []*Spec
	for _, rf := range []string{"auto", "manual", "none"} {
		for _, how := range []string{"cancel", "shutdown"} {
			for n := 1; n <= 2; n++ {
				for _, variant := range []string{"idle", "progress", "complete-first"} {
					if n == 1 && variant == "complete-first" {
						continue
					}
					sp := &Spec{Name: fmt.Sprintf("c14-%s-%s-n%d", how, variant, n), Refresh: rf, Q: -1, Notifier: true}
					for i := 0; i < n; i++ {
						bs := BarSpec{Total: 3, Pre: []DecorSpec{listenD(i, true)}, App: []DecorSpec{listenD(2+i, false), {Sync: true, Wrap: "both", Widths: []int{3}}}}
						if variant == "progress" && i == 0 {
							bs.App = append(bs.App, listenReadD())
						}
						if variant == "idle" && i == n-1 {
							bs.Total = 0 // a bar of unknown total that nobody touches: ended only by the cancellation
						}
						sp.Bars = append(sp.Bars, bs)
						sp.Main = append(sp.Main, Op{K: "add", B: i})
					}
					switch variant {
					case "progress":
						for i := 0; i < n; i++ {
							ops := []Op{{K: "incr", B: i, N: 1}, {K: "incr", B: i, N: 1}}
							if rf == "manual" {
								ops = append(ops, Op{K: "refresh"})
							}
							sp.Clients = append(sp.Clients, ops)
						}
					case "complete-first":
						ops := []Op{{K: "incr", B: 0, N: 3}}
						if rf == "manual" {
							ops = append(ops, Op{K: "refresh"}, Op{K: "refresh"})
						}
						sp.Clients = append(sp.Clients, ops, []Op{{K: "incr", B: 1, N: 1}})
					}
					sp.Clients = append(sp.Clients, []Op{{K: how}})
					sp.Clients = append(sp.Clients, []Op{{K: "barwait", B: 0}})
					for i := 0; i < n; i++ {
						sp.Late = append(sp.Late, Op{K: "get", B: i})
					}
					out = append(out, sp)
				}
			}
		}
	}
	// a program that builds every bar's decorator lists in one scratch slice (passed as slice...): each bar keeps
	// its own listeners, each notified exactly once
	for _, rf := range []string{"auto", "manual", "none"} {
		for _, how := range []string{"cancel", "shutdown"} {
			sp := &Spec{Name: "c14-" + how + "-reused-slice", Refresh: rf, Q: -1, Notifier: true, ReuseDecorSlice: true}
			for i := 0; i < 3; i++ {
				sp.Bars = append(sp.Bars, BarSpec{Total: 3, Pre: []DecorSpec{listenD(i, true)}, App: []DecorSpec{listenD(3+i, false)}})
				sp.Main = append(sp.Main, Op{K: "add", B: i})
			}
			sp.Clients = [][]Op{{{K: "incr", B: 0, N: 1}}, {{K: how}}, {{K: "barwait", B: 0}}}
			for i := 0; i < 3; i++ {
				sp.Late = append(sp.Late, Op{K: "get", B: i})
			}
			out = append(out, sp)
		}
	}
	// one decorator that is both a shutdown listener and a moving-average decorator (bare and wrapped), next to a plain
	// listener and a plain moving-average decorator: membership in one group must not cost it the other
	for _, rf := range []string{"auto", "manual"} {
		for _, how := range []string{"cancel", "shutdown"} {
			sp := &Spec{Name: "c14-" + how + "-listener-and-ewma", Refresh: rf, Q: -1, Notifier: true}
			sp.Bars = []BarSpec{
				{Total: 3, Pre: []DecorSpec{{Listen: true, Ewma: true, Widths: []int{2}}}, App: []DecorSpec{{Ewma: true, Widths: []int{2}}, listenD(1, false)}},
				{Total: 3, App: []DecorSpec{{Listen: true, Ewma: true, Depth: 2, Widths: []int{3}}}},
			}
			sp.Main = []Op{{K: "add", B: 0}, {K: "add", B: 1}}
			sp.Clients = [][]Op{{{K: "ewma", B: 0, N: 1}, {K: "ewma", B: 1, N: 1}}, {{K: how}}, {{K: "barwait", B: 0}}}
			sp.Late = []Op{{K: "get", B: 0}, {K: "get", B: 1}}
			out = append(out, sp)
		}
	}
	// cancellation and Shutdown landing while a render delay is still pending
	for _, rf := range []string{"auto", "manual"} {
		for _, how := range []string{"cancel", "shutdown"} {
			sp := &Spec{Name: "c14-" + how + "-during-render-delay", Refresh: rf, Q: -1, Notifier: true, Delay: true}
			sp.Bars = []BarSpec{{Total: 3, Pre: []DecorSpec{listenD(0, true)}}, {Total: 3, App: []DecorSpec{listenD(1, false)}}}
			sp.Main = []Op{{K: "add", B: 0}, {K: "add", B: 1}}
			sp.Clients = [][]Op{{{K: "incr", B: 0, N: 1}}, {{K: how}}, {{K: "barwait", B: 0}}}
			sp.Late = []Op{{K: "get", B: 0}, {K: "get", B: 1}}
			out = append(out, sp)
		}
	}
	return out
}

func c16Programs(tier string) []*Spec {
	var out []*Spec
	mk := func(name, rf string, q int, f func(sp *Spec)) {
		sp := &Spec{Name: "c16-" + name, Refresh: rf, Q: q, Notifier: true}
		sp.Bars = []BarSpec{{Total: 2, Pre: []DecorSpec{syncD(2, 3)}}, {Total: 2, Pre: []DecorSpec{syncD(1)}}}
		sp.Main = []Op{{K: "add", B: 0}, {K: "add", B: 1}}
		sp.Clients = [][]Op{completeOps(0, 2), completeOps(1, 2)}
		f(sp)
		if rf == "manual" {
			sp.Clients = append(sp.Clients, []Op{{K: "refresh"}, {K: "refresh"}, {K: "refresh"}})
		}
		out = append(out, sp)
	}
	for _, rf := range []string{"auto", "manual", "none"} {
		mk("normal", rf, -1, func(sp *Spec) {})
		mk("abortdrop", rf, -1, func(sp *Spec) { sp.Clients[1] = []Op{{K: "abort", B: 1, F: true}} })
		mk("cancel", rf, -1, func(sp *Spec) { sp.Clients[1] = []Op{{K: "incr", B: 1, N: 1}, {K: "cancel"}} })
		mk("shutdown", rf, -1, func(sp *Spec) { sp.Clients[1] = []Op{{K: "incr", B: 1, N: 1}, {K: "shutdown"}} })
		mk("pop", rf, -1, func(sp *Spec) { sp.Pop = true })
		mk("nonotifier", rf, -1, func(sp *Spec) { sp.Notifier = false })
		mk("queued", rf, -1, func(sp *Spec) {
			sp.Bars = append(sp.Bars, BarSpec{Total: 1, After: 1})
			sp.Main = append(sp.Main, Op{K: "add", B: 2})
			sp.Clients = append(sp.Clients, []Op{{K: "incr", B: 2, N: 1}})
		})
		mk("ewma", rf, -1, func(sp *Spec) {
			sp.Bars[0].App = []DecorSpec{{Ewma: true}}
			sp.Clients[0] = []Op{{K: "ewma", B: 0, N: 1}, {K: "ewma", B: 0, N: 1}}
		})
	}
	// rows so narrow that the decorator in front of a width-synchronised one uses the whole width, on every bar: the
	// synchronised decorators behind it are still part of their column's exchange in every cycle
	for _, rf := range []string{"manual", "auto"} {
		sp := &Spec{Name: "c16-narrow-rows-sync-behind-wide", Refresh: rf, Q: -1, Notifier: true, Width: 10}
		sp.Bars = []BarSpec{{Total: 2, Pre: []DecorSpec{{Widths: []int{13}}, syncD(3)}}, {Total: 2, Pre: []DecorSpec{{Widths: []int{12}}, syncD(2)}}}
		sp.Main = []Op{{K: "add", B: 0}, {K: "add", B: 1}}
		sp.Clients = [][]Op{completeOps(0, 2), completeOps(1, 2)}
		if rf == "manual" {
			sp.Clients = append(sp.Clients, []Op{{K: "refresh"}, {K: "refresh"}, {K: "refresh"}})
		}
		out = append(out, sp)
	}
	// every bar has left, the container keeps refreshing for a while with nothing in it, then Wait
	{
		sp := &Spec{Name: "c16-idle-empty", Refresh: "manual", Q: -1, Notifier: true}
		for i := 0; i < 2; i++ {
			sp.Bars = append(sp.Bars, BarSpec{Total: 1, Rm: true, Pre: []DecorSpec{syncD(2 + i)}, App: []DecorSpec{syncD(3)}})
			sp.Main = append(sp.Main, Op{K: "add", B: i})
		}
		// a third bar keeps Wait from returning until the empty cycles have run: it is added only afterwards
		sp.Bars = append(sp.Bars, BarSpec{Total: 1})
		sp.Main = append(sp.Main, Op{K: "refresh"}, Op{K: "incr", B: 0, N: 1}, Op{K: "incr", B: 1, N: 1}, Op{K: "refresh"}, Op{K: "refresh"}, Op{K: "refresh"},
			Op{K: "refresh"}, Op{K: "refresh"}, Op{K: "refresh"}, Op{K: "add", B: 2}, Op{K: "refresh"}, Op{K: "incr", B: 2, N: 1}, Op{K: "refresh"}, Op{K: "refresh"})
		out = append(out, sp)
	}
	return out
}

func init() {
	register(&Family{
		Property: "C14",
		Rule: "also: decorators that are shutdown listener and moving-average decorator at once (bare and wrapped twice); " +
			"programs with 1..2 bars carrying shutdown-listener decorators wrapped 0..3 levels deep on both sides (synchronised and plain), notifier on, refresh{auto,manual,none}, decorator lists passed from a reused scratch slice, a render delay still pending; a dedicated thread issues ctx cancel or Shutdown so the explorer places it at every scheduling point within the deviation bound (before any render, mid-cycle, between a completion and its second render). " +
			"Oracle once Wait returned: every call returned, late getters show IsRunning=false and exactly one of completed/aborted, each listener notified exactly once, exactly one notifier value without duplicates listing every bar no frame dropped, no library thread alive at quiescence.",
		Items: func(tier string) []Item {
			var items []Item
			bound := 2
			if tier == "thorough" {
				bound = 3
				items = allItems("C14", c14Oracle, nil, "cancel", "shutdown", "empty")
			}
			for _, sp := range c14Programs(tier) {
				b := bound
				if len(sp.Bars) > 1 {
					b = bound - 1
				}
				if tier == "thorough" {
					items = append(items, specItemsMixed("C14", sp, b, b-1, allStrats, nil, c14Oracle)...)
					continue
				}
				items = append(items, specItems("C14", sp, b, allStrats, nil, c14Oracle)...)
			}
			// cancellation while the output goes away: the render after the cancellation fails
			for _, sp := range closingWritePrograms("c14") {
				if strings.Contains(sp.Name, "-cancel-") {
					items = append(items, specItems("C14", sp, 1, []int{mcrt.StratFIFO, mcrt.StratNewest}, []string{"fault:write"}, c14Oracle)...)
				}
			}
			return items
		},
	})
	register(&Family{
		Property: "C16",
		Rule: "also (cross-family slice): the quick-tier programs of the other concurrent families (C03 C04 C05 C06 C12 C13 C14 C15 C17 C18; no pseudo terminals), with no deviation under every base strategy and one deviation under the first, judged by the leak phase alone; " +
			"also: rows so narrow that a synchronised decorator sits behind one that uses the whole width; " +
			"one representative program per exit path (normal completion, abort+drop, ctx cancel, Shutdown, pop mode, notifier on/off, queued successor, ewma update goroutines) x refresh{auto,manual,none}; every schedule within the deviation bound. " +
			"Oracle: after Wait returned and the notifier was read, the remaining threads run to quiescence (idle ticks granted); mcrt knows every thread, so any library-created thread that has not exited is reported with the function it is blocked in.",
		Items: func(tier string) []Item {
			var items []Item
			bound := 1
			leakOracle := func(sp *Spec, x *X, res *mcrt.Result) (string, string) {
				if x.WaitStep == 0 {
					return "wait-not-returned", "Progress.Wait did not return"
				}
				if x.EventCount("leak") > 0 {
					return "leak", strings.Join(x.Notes, "; ")
				}
				return "", ""
			}
			if tier == "thorough" {
				bound = 2
				items = allItems("C16", leakOracle, nil, "incr", "cancel", "shutdown", "incr-write", "two", "empty")
			}
			for _, sp := range c16Programs(tier) {
				items = append(items, specItemsMixed("C16", sp, bound, 1, allStrats, nil, leakOracle)...)
			}
			for _, rf := range []string{"auto", "manual"} {
				// the terminal goes away: the size query fails in the next cycle
				sp := &Spec{Name: "c16-termsize", Refresh: rf, Q: -1, Pty: true, TermW: 30, TermH: 6, Notifier: true}
				sp.Bars = []BarSpec{{Total: 5, Pre: []DecorSpec{syncD(2)}}, {Total: 5, Pre: []DecorSpec{syncD(3)}}}
				sp.Main = []Op{{K: "add", B: 0}, {K: "add", B: 1}}
				ops := []Op{{K: "incr", B: 0, N: 1}, {K: "closepty"}}
				if rf == "manual" {
					ops = append(ops, Op{K: "refresh"}, Op{K: "refresh"})
				}
				sp.Clients = [][]Op{ops}
				items = append(items, specItems("C16", sp, 1, []int{mcrt.StratFIFO, mcrt.StratNewest}, []string{"fault:termsize"}, func(sp *Spec, x *X, res *mcrt.Result) (string, string) {
					if x.EventCount("pty-unavailable") > 0 {
						return "", ""
					}
					if x.WaitStep == 0 {
						return "wait-not-returned", "Progress.Wait did not return"
					}
					if x.EventCount("leak") > 0 {
						return "leak", strings.Join(x.Notes, "; ")
					}
					return "", ""
				})...)
			}
			for _, sp := range closingWritePrograms("c16") {
				items = append(items, specItems("C16", sp, 1, []int{mcrt.StratFIFO, mcrt.StratNewest}, []string{"fault:write"}, func(sp *Spec, x *X, res *mcrt.Result) (string, string) {
					if x.WaitStep == 0 {
						return "wait-not-returned", "Progress.Wait did not return"
					}
					if x.EventCount("leak") > 0 {
						return "leak", strings.Join(x.Notes, "; ")
					}
					return "", ""
				})...)
			}
			// the programs of the other concurrent families, judged by the leak phase alone (cross.go)
			items = append(items, crossItems("C16", tier, judgeLeak)...)
			return items
		},
	})
}
