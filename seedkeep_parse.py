import os, re

def parse(logpath):
    if not os.path.exists(logpath):
        return None
    txt = open(logpath).read()
    res = {"suite_green": False, "demo_fails_with": False, "demo_passes_without": False, "checks": {}}
    sec = None
    cur = None
    for line in txt.splitlines():
        if line.startswith("== "):
            sec = line
            m = re.match(r"== check (C\d+) with change", line)
            cur = m.group(1) if m else None
            if cur:
                res["checks"][cur] = {"caught": False, "keys": [], "summary": ""}
            continue
        if sec is None:
            continue
        if sec.startswith("== suite"):
            if line.startswith("ok") and "mpb/v8\t" in line:
                res["suite_green"] = True
            if line.startswith("FAIL"):
                res["suite_green"] = False
        elif sec.startswith("== demo without"):
            if line.startswith("ok"):
                res["demo_passes_without"] = True
        elif sec.startswith("== demo with"):
            if line.startswith("FAIL") or "--- FAIL" in line:
                res["demo_fails_with"] = True
        elif cur:
            c = res["checks"][cur]
            m = re.search(r"violation key=(\S+)", line)
            if m:
                k = m.group(1).split("|")[0]
                if k not in c["keys"]:
                    c["keys"].append(k)
                c["caught"] = True  # these lines are printed only for violations that match no known finding
            if line.startswith("VIOLATION"):
                c["caught"] = True
            if " quick: items=" in line or " thorough: items=" in line:
                c["summary"] = line.strip()[:160]
    return res

