#!/bin/bash
# seedtry.sh <patch file> <Cxx>...: run quick checks (TIER=thorough for the other tier) against a scratch worktree of
# /repo's HEAD with the patch applied; /repo itself is not touched. Prints the summary and violation lines.
export GOFLAGS=-mod=mod GOPROXY=off GOSUMDB=off GOTOOLCHAIN=local
PATCH=$(readlink -f "$1"); shift
W=/var/tmp/seedtry-$$; B=/var/tmp/seedtry-$$.build
git -C /repo worktree add -q --detach $W HEAD || exit 2
( cd $W && (git apply --3way $PATCH 2>/dev/null || git apply $PATCH) ) || { echo "PATCH DOES NOT APPLY"; git -C /repo worktree remove --force $W; exit 2; }
mkdir -p $B/out
for c in "$@"; do
  echo "== check $c with change"
  (cd /verif && MC_REPO=$W MC_BUILD=$B MC_VERIF_OUT=$B/out ./mc.sh check $c --tier ${TIER:-quick} ${BUDGET:+--budget $BUDGET} 2>&1 | grep -E "violation key|VIOLATION|KNOWN|exhaustive|HARNESS|not a verdict|error|cannot" | cut -c1-300 | head -${LINES_MAX:-30})
done
rm -rf $B; git -C /repo worktree remove --force $W
