#!/bin/bash
# seedbatch.sh "C07:2:C07" "C02:1:C02 C14" ...  → logs in /verif/seedlogs
for spec in "$@"; do
  P=${spec%%:*}; rest=${spec#*:}; N=${rest%%:*}; C=${rest#*:}
  CHECKS="$C" /verif/seedeval.sh $P $N > ${LOGDIR:-/verif/seedlogs}/$P-$N.log 2>&1
done
echo batch done
