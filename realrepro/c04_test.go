package realrepro

import (
	"strings"
	"testing"
	"time"

	"github.com/vbauerster/mpb/v8"
	"github.com/vbauerster/mpb/v8/decor"
	"scen"
)

// C04: as many bar rows as the terminal has lines. The real package writes to
// a real pseudo terminal (cwriter's terminal path); the stream is interpreted
// by the terminal emulator used by the checks (xterm semantics). Before the
// fix every flush scrolled the terminal by one line, pushing a bar row into
// the scrollback per frame.
func TestC04FrameAsTallAsTerminal(t *testing.T) {
	pty, err := scen.OpenPty(30, 3)
	if err != nil {
		t.Skip("no pty:", err)
	}
	refresh := make(chan interface{})
	p := mpb.New(mpb.WithOutput(pty.Slave), mpb.WithManualRefresh(refresh))
	var bars []*mpb.Bar
	for i := 0; i < 3; i++ {
		bars = append(bars, p.AddBar(3, mpb.PrependDecorators(decor.Name("bar"+string(rune('A'+i))))))
	}
	for k := 0; k < 3; k++ {
		for _, b := range bars {
			b.Increment()
		}
		refresh <- time.Now()
	}
	refresh <- time.Now()
	refresh <- time.Now()
	p.Wait()
	term := scen.NewTerm(30, 3)
	term.Write(pty.Finish())
	for _, l := range term.Scrollback {
		if strings.Contains(l, "bar") {
			t.Fatalf("bar rows were pushed into the scrollback: %q", term.Scrollback)
		}
	}
}
