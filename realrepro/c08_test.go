package realrepro

import (
	"bytes"
	"strings"
	"testing"

	"github.com/vbauerster/mpb/v8"
	"github.com/vbauerster/mpb/v8/decor"
)

// C08/C20: width*current was multiplied in uint and wrapped for large byte counts.
func TestC08PercentageOverflow(t *testing.T) {
	var buf bytes.Buffer
	f := mpb.BarStyle().Build()
	total, cur := int64(1)<<62, int64(1)<<61
	if err := f.Fill(&buf, decor.Statistics{AvailableWidth: 102, Total: total, Current: cur}); err != nil {
		t.Fatal(err)
	}
	if n := strings.Count(buf.String(), "=") + strings.Count(buf.String(), ">"); n != 50 {
		t.Errorf("total=2^62 current=2^61 width=100: %d cells filled, want 50: %s", n, buf.String())
	}
	s, _ := decor.Percentage().Decor(decor.Statistics{Total: total, Current: cur})
	if s != "50 %" {
		t.Errorf("percentage decorator prints %q, want \"50 %%\"", s)
	}
}
