// Package realrepro replays, against the UNMODIFIED package in /repo and on
// the real Go runtime, the counterexamples that the model checker found, so
// that each one is shown on the real code before it is called a defect.
package realrepro

import (
	"io"
	"math"
	"testing"

	"github.com/vbauerster/mpb/v8"
)

// C11/C09: Abort on a bar whose current already equals its (non-positive) total.
func TestC11AbortAtCurrentEqualsTotal(t *testing.T) {
	p := mpb.New(mpb.WithOutput(io.Discard))
	b := p.AddBar(0)
	b.Abort(false)
	b.Wait()
	c, a := b.Completed(), b.Aborted()
	p.Wait()
	if c || !a {
		t.Fatalf("AddBar(0); Abort(false): Completed=%v Aborted=%v, want false/true", c, a)
	}
}

// C11: increments that reach the total after Abort.
func TestC11AbortThenReachTotal(t *testing.T) {
	p := mpb.New(mpb.WithOutput(io.Discard), mpb.WithAutoRefresh())
	b := p.AddBar(10)
	b.Abort(false)
	if !b.Aborted() {
		t.Fatal("Aborted() false right after Abort")
	}
	b.IncrBy(10)
	c1, a1 := b.Completed(), b.Aborted()
	p.Wait()
	c2, a2 := b.Completed(), b.Aborted()
	if c1 && a1 {
		t.Errorf("after Abort; IncrBy(total): Completed and Aborted both true")
	}
	if !a2 || c2 {
		t.Errorf("after Wait: Completed=%v Aborted=%v, want false/true (Aborted was true before)", c2, a2)
	}
}

// C09, reported by two bug-hunting sub-agents and reproduced by the C09 search once the alphabet had IncrInt64 of
// MaxInt64/MinInt64 and the reference a saturating sum: an increment that does not fit into int64 wrapped around.
func TestC09IncrementDoesNotWrapAround(t *testing.T) {
	p := mpb.New(mpb.WithOutput(io.Discard))
	b := p.AddBar(100)
	b.IncrBy(50)
	b.IncrInt64(math.MaxInt64)
	if cur, done := b.Current(), b.Completed(); cur != 100 || !done {
		t.Fatalf("total 100, at 50, IncrInt64(MaxInt64): Current()=%d Completed()=%v, want 100 true", cur, done)
	}
	p.Wait()
}
