package realrepro

import (
	"errors"
	"io"
	"sync"
	"testing"
	"time"

	"github.com/vbauerster/mpb/v8"
	"github.com/vbauerster/mpb/v8/decor"
)

// gated is a user decorator with width synchronisation that waits for a
// signal before it takes part in the width exchange: it only widens a window
// that exists anyway (a slow decorator).
type gated struct {
	decor.WC
	gate <-chan struct{}
}

func (d gated) Decor(decor.Statistics) (string, int) {
	<-d.gate
	return d.Format("x")
}

// C15 (also C01, C16): bar 1's filler fails while bar 0 has not yet sent its
// width to the column's distributor. flush closes the drop channel, the
// distributor returns, bar 0's goroutine blocks in WC.Format for ever and
// Wait never returns. Schedule found by `mc check C15` (replay kept in
// KNOWN_FINDINGS.jsonl), forced here through user callbacks only.
func TestC15ErrorWhileOtherBarInWidthSync(t *testing.T) {
	gate := make(chan struct{})
	var once sync.Once
	refresh := make(chan interface{})
	p := mpb.New(mpb.WithOutput(io.Discard), mpb.WithManualRefresh(refresh))
	wc := decor.WC{C: decor.DSyncWidth}
	wc.Init()
	p.AddBar(5, mpb.PrependDecorators(gated{wc, gate}))
	p.Add(5, mpb.BarFillerFunc(func(io.Writer, decor.Statistics) error {
		// bar 0's decorator proceeds 200ms after the failure (long after flush has seen the failed frame)
		once.Do(func() { time.AfterFunc(200*time.Millisecond, func() { close(gate) }) })
		return errors.New("filler failed")
	}))
	refresh <- time.Now()
	done := make(chan struct{})
	go func() { p.Wait(); close(done) }()
	select {
	case <-done:
	case <-time.After(3 * time.Second):
		t.Fatal("Progress.Wait did not return 3s after a filler error: bar 0 is blocked in decor.WC.Format")
	}
}

// C15 / C14 / C05, found by a bug-hunting sub-agent and then by the C15 check's notifier clause: the repair a1ea537
// (drain the started renders before dropping the cycle) received the remaining bars from the ordered iteration, which
// pops them off the heap, and did not push them back: every healthy bar displayed above the failing one vanished from
// the container, and the shutdown notifier listed none of them.
func TestC15RenderErrorKeepsOtherBars(t *testing.T) {
	notify := make(chan interface{}, 1)
	p := mpb.New(mpb.WithOutput(io.Discard), mpb.WithAutoRefresh(), mpb.WithRefreshRate(5*time.Millisecond), mpb.WithShutdownNotifier(notify))
	a := p.AddBar(10)
	b := p.AddBar(10)
	bad, err := p.Add(10, mpb.BarFillerFunc(func(w io.Writer, st decor.Statistics) error { return errors.New("filler failed") }))
	if err != nil {
		t.Fatal(err)
	}
	p.Wait()
	_ = bad
	select {
	case v := <-notify:
		bars := v.([]*mpb.Bar)
		ids := map[int]bool{}
		for _, x := range bars {
			ids[x.ID()] = true
		}
		if !ids[a.ID()] || !ids[b.ID()] {
			t.Fatalf("after a render error the shutdown notifier lists bars %v; the two healthy bars (%d, %d) were never removed", ids, a.ID(), b.ID())
		}
	case <-time.After(5 * time.Second):
		t.Fatal("no value on the shutdown notifier")
	}
}
