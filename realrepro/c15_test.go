package realrepro

import (
	"errors"
	"io"
	"sync"
	"testing"
	"time"

	"github.com/vbauerster/mpb/v8"
	"github.com/vbauerster/mpb/v8/decor"
)

// gated is a user decorator with width synchronisation that waits for a
// signal before it takes part in the width exchange: it only widens a window
// that exists anyway (a slow decorator).
type gated struct {
	decor.WC
	gate <-chan struct{}
}

func (d gated) Decor(decor.Statistics) (string, int) {
	<-d.gate
	return d.Format("x")
}

// C15 (also C01, C16): bar 1's filler fails while bar 0 has not yet sent its
// width to the column's distributor. flush closes the drop channel, the
// distributor returns, bar 0's goroutine blocks in WC.Format for ever and
// Wait never returns. Schedule found by `mc check C15` (replay kept in
// KNOWN_FINDINGS.jsonl), forced here through user callbacks only.
func TestC15ErrorWhileOtherBarInWidthSync(t *testing.T) {
	gate := make(chan struct{})
	var once sync.Once
	refresh := make(chan interface{})
	p := mpb.New(mpb.WithOutput(io.Discard), mpb.WithManualRefresh(refresh))
	wc := decor.WC{C: decor.DSyncWidth}
	wc.Init()
	p.AddBar(5, mpb.PrependDecorators(gated{wc, gate}))
	p.Add(5, mpb.BarFillerFunc(func(io.Writer, decor.Statistics) error {
		// bar 0's decorator proceeds 200ms after the failure (long after flush has seen the failed frame)
		once.Do(func() { time.AfterFunc(200*time.Millisecond, func() { close(gate) }) })
		return errors.New("filler failed")
	}))
	refresh <- time.Now()
	done := make(chan struct{})
	go func() { p.Wait(); close(done) }()
	select {
	case <-done:
	case <-time.After(3 * time.Second):
		t.Fatal("Progress.Wait did not return 3s after a filler error: bar 0 is blocked in decor.WC.Format")
	}
}
