#!/bin/bash
# Replays the recorded (unrepaired) findings against the real package on the real runtime.
# Each command is expected to SHOW the defect; this script is documentation, not a check.
export GOFLAGS=-mod=mod GOPROXY=off GOSUMDB=off GOTOOLCHAIN=local
cd /verif/realrepro
T=$(mktemp -d /var/tmp/realrepro.XXXX)
go build -tags verif -o $T/nq_panic ./cmd/nq_panic && go build -tags verif -o $T/nq_format ./cmd/nq_format || exit 2
echo "== nq_panic (expect: panic: send on closed channel)"; $T/nq_panic 2>&1 | grep -E "^panic|no panic" | head -2
echo "== nq_format (expect: HANG)"; $T/nq_format 2>&1 | head -2
rm -rf $T
echo "== c17_queue (expect: late: HANG, SUCC-0 displayed=false; two: HANG, SUCC-0 displayed=false)"
go run ./cmd/c17_queue
T=$(mktemp -d /var/tmp/realrepro.XXXX); go build -tags verif -o $T/nq_vanish ./cmd/nq_vanish || exit 2
echo "== nq_vanish (expect: VANISHED)"; $T/nq_vanish | tail -2; rm -rf $T
echo "== pop clipped (expect: FAIL with POP-CLIPPED)"; REPLAY_KNOWN=1 go test -count=1 -run TestKnownPopClipped . 2>&1 | grep -E "POP-CLIPPED|^ok|^FAIL" | head -3
echo "== pop during render delay (expect: FAIL with POP-DELAY)"; REPLAY_KNOWN=1 go test -count=1 -run TestKnownPopDuringRenderDelay . 2>&1 | grep -E "POP-DELAY|^ok|^FAIL" | head -3
echo "== Add while Wait (expect: FAIL with ADD-WAIT, or a process crash 'WaitGroup misuse')"; REPLAY_KNOWN=1 go test -count=1 -run TestKnownAddWhileWait . 2>&1 | grep -E "ADD-WAIT|WaitGroup|^ok|^FAIL" | head -3
