//go:build verif

// nq_vanish: n > q. A bar's re-push (detached goroutine, queue full) reaches the
// heap manager only after the next cycle's iter request: that frame is drawn
// without the bar, the following one shows it again.
package main

import (
	"fmt"
	"os"
	"strings"
	"sync"
	"sync/atomic"
	"time"

	"github.com/vbauerster/mpb/v8"
	"github.com/vbauerster/mpb/v8/decor"
)

type frames struct {
	mu sync.Mutex
	fs []string
}

func (f *frames) Write(p []byte) (int, error) {
	f.mu.Lock()
	f.fs = append(f.fs, string(p))
	f.mu.Unlock()
	return len(p), nil
}

func main() {
	var armed atomic.Bool
	var held, synced atomic.Int32
	gate := make(chan struct{})
	mpb.VerifHook = func(pt string) {
		switch pt {
		case "push.detached":
			if armed.Load() && held.Add(1) == 1 { // hold the first detached push of the armed cycle
				<-gate
			}
		case "render.synced":
			if armed.Load() && held.Load() > 0 && synced.Add(1) == 2 {
				// second cycle after the push was held: let it through now
				close(gate)
				time.Sleep(100 * time.Millisecond)
			}
		}
	}
	out := &frames{}
	refresh := make(chan interface{})
	p := mpb.New(mpb.WithOutput(out), mpb.WithQueueLen(0), mpb.WithManualRefresh(refresh), mpb.WithWidth(40))
	a := p.AddBar(10, mpb.PrependDecorators(decor.Name("AAA")))
	b := p.AddBar(10, mpb.PrependDecorators(decor.Name("BBB")))
	refresh <- time.Now()
	time.Sleep(50 * time.Millisecond)
	armed.Store(true)
	for i := 0; i < 4; i++ {
		refresh <- time.Now()
		time.Sleep(150 * time.Millisecond)
	}
	a.Abort(false)
	b.Abort(false)
	for i := 0; i < 3; i++ {
		select {
		case refresh <- time.Now():
		case <-time.After(300 * time.Millisecond):
		}
		time.Sleep(50 * time.Millisecond)
	}
	done := make(chan struct{})
	go func() { p.Wait(); close(done) }()
	select {
	case <-done:
	case <-time.After(2 * time.Second):
		fmt.Println("(Wait did not return)")
	}
	out.mu.Lock()
	defer out.mu.Unlock()
	vanished := false
	for i, f := range out.fs {
		ha, hb := strings.Contains(f, "AAA"), strings.Contains(f, "BBB")
		fmt.Printf("frame %d: AAA=%v BBB=%v\n", i, ha, hb)
		if i > 0 && i+1 < len(out.fs) && (!ha || !hb) {
			n := out.fs[i+1]
			if strings.Contains(n, "AAA") && strings.Contains(n, "BBB") {
				vanished = true
			}
		}
	}
	if vanished {
		fmt.Println("VANISHED: a bar is missing from one frame and back in the next")
		os.Exit(3)
	}
	fmt.Println("every frame shows both bars")
}
