//go:build verif

// nq_panic: n > q. A detached push goroutine (heapManager.push's fallback when
// the request queue is full) that is scheduled late sends on the queue after
// the heap manager closed it: "panic: send on closed channel" in a library
// goroutine. The hook only delays that goroutine before its send.
package main

import (
	"fmt"
	"io"
	"sync/atomic"
	"time"

	"github.com/vbauerster/mpb/v8"
	"github.com/vbauerster/mpb/v8/decor"
)

func main() {
	var armed atomic.Bool
	closed := make(chan struct{})
	mpb.VerifHook = func(pt string) {
		switch pt {
		case "push.detached":
			if armed.Load() {
				<-closed
			}
		case "hm.closed":
			close(closed)
		}
	}
	p := mpb.New(mpb.WithOutput(io.Discard), mpb.WithQueueLen(0), mpb.WithAutoRefresh(), mpb.WithRefreshRate(5*time.Millisecond))
	seen := 0
	b, _ := p.Add(1, mpb.BarFillerFunc(func(w io.Writer, st decor.Statistics) error {
		if st.Completed {
			seen++
			if seen == 2 {
				// this is the frame after which the bar is cancelled and pushed back: delay that push
				armed.Store(true)
			}
		}
		return nil
	}))
	b.Increment()
	p.Wait()
	time.Sleep(200 * time.Millisecond)
	fmt.Println("no panic")
}
