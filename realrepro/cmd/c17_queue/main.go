// c17_queue: BarQueueAfter on the real package, no hooks.
//
//	late: the successor is created after its predecessor's final frame was flushed
//	two : two bars are queued after the same predecessor
//
// In both cases a queued bar is parked for ever, is never displayed, and in an
// auto-refreshing container Progress.Wait never returns.
package main

import (
	"bytes"
	"fmt"
	"os"
	"strings"
	"sync"
	"time"

	"github.com/vbauerster/mpb/v8"
	"github.com/vbauerster/mpb/v8/decor"
)

type safeBuf struct {
	mu sync.Mutex
	b  bytes.Buffer
}

func (s *safeBuf) Write(p []byte) (int, error) { s.mu.Lock(); defer s.mu.Unlock(); return s.b.Write(p) }
func (s *safeBuf) String() string              { s.mu.Lock(); defer s.mu.Unlock(); return s.b.String() }

func run(mode string) {
	var out safeBuf
	p := mpb.New(mpb.WithOutput(&out), mpb.WithAutoRefresh(), mpb.WithRefreshRate(10*time.Millisecond))
	pred := p.AddBar(1, mpb.PrependDecorators(decor.Name("PRED")))
	var succ []*mpb.Bar
	switch mode {
	case "late":
		pred.Increment()
		pred.Wait() // returns once the predecessor's final frame has been flushed
		succ = append(succ, p.AddBar(1, mpb.BarQueueAfter(pred), mpb.PrependDecorators(decor.Name("SUCC-0"))))
	case "two":
		succ = append(succ, p.AddBar(1, mpb.BarQueueAfter(pred), mpb.PrependDecorators(decor.Name("SUCC-0"))))
		succ = append(succ, p.AddBar(1, mpb.BarQueueAfter(pred), mpb.PrependDecorators(decor.Name("SUCC-1"))))
		pred.Increment()
	}
	for _, s := range succ {
		s.Increment()
	}
	done := make(chan struct{})
	go func() { p.Wait(); close(done) }()
	select {
	case <-done:
		fmt.Printf("%s: Wait returned\n", mode)
	case <-time.After(2 * time.Second):
		fmt.Printf("%s: HANG: Progress.Wait did not return; ", mode)
	}
	for i := range succ {
		fmt.Printf("SUCC-%d displayed=%v ", i, strings.Contains(out.String(), fmt.Sprintf("SUCC-%d", i)))
	}
	fmt.Println()
}

func main() {
	if len(os.Args) > 1 {
		run(os.Args[1])
		return
	}
	run("late")
	run("two")
}
