//go:build verif

// nq_format: n > q. The bars' re-push requests of one cycle (detached
// goroutines, because the queue is full) reach the heap manager after the next
// cycle's sync request and before its iter request: the width matrices were
// built from an empty heap, no distributor listens, and every bar rendered in
// that cycle blocks in decor.WC.Format for ever. Wait never returns.
package main

import (
	"fmt"
	"io"
	"os"
	"sync/atomic"
	"time"

	"github.com/vbauerster/mpb/v8"
	"github.com/vbauerster/mpb/v8/decor"
)

func main() {
	var armed, released atomic.Bool
	var held atomic.Int32
	gate := make(chan struct{})
	mpb.VerifHook = func(pt string) {
		switch pt {
		case "push.detached":
			if armed.Load() && !released.Load() {
				held.Add(1)
				<-gate
			}
		case "render.synced":
			if armed.Load() && !released.Load() && held.Load() > 0 {
				released.Store(true)
				close(gate)
				time.Sleep(100 * time.Millisecond) // let the delayed pushes enqueue before the iter request
			}
		}
	}
	refresh := make(chan interface{})
	p := mpb.New(mpb.WithOutput(io.Discard), mpb.WithQueueLen(0), mpb.WithManualRefresh(refresh))
	b0 := p.AddBar(2, mpb.PrependDecorators(decor.Name("a", decor.WCSyncWidth)))
	b1 := p.AddBar(2, mpb.PrependDecorators(decor.Name("bb", decor.WCSyncWidth)))
	refresh <- time.Now() // cycle 1: both bars drawn, both pushed back
	time.Sleep(50 * time.Millisecond)
	armed.Store(true)
	refresh <- time.Now() // cycle 2: pushes back are held ...
	done := make(chan struct{})
	go func() {
		refresh <- time.Now() // cycle 3: ... and released between its sync and iter requests
		b0.IncrBy(2)
		b1.IncrBy(2)
		for i := 0; i < 4; i++ {
			select {
			case refresh <- time.Now():
			case <-time.After(500 * time.Millisecond):
			}
		}
		p.Wait()
		close(done)
	}()
	select {
	case <-done:
		fmt.Println("Wait returned")
	case <-time.After(4 * time.Second):
		fmt.Println("HANG: Progress.Wait did not return")
		os.Exit(3)
	}
}
