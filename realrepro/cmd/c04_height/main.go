// c04_height: as many bar rows as the terminal has lines. Run inside a real
// terminal (tmux pane of 5 lines): every frame scrolls the screen by one line,
// so a bar row is pushed into the scrollback per frame.
package main

import (
	"time"

	"github.com/vbauerster/mpb/v8"
	"github.com/vbauerster/mpb/v8/decor"
)

func main() {
	p := mpb.New(mpb.WithRefreshRate(50 * time.Millisecond))
	var bars []*mpb.Bar
	for i := 0; i < 5; i++ {
		bars = append(bars, p.AddBar(10, mpb.PrependDecorators(decor.Name("bar"+string(rune('A'+i))))))
	}
	for k := 0; k < 10; k++ {
		for _, b := range bars {
			b.Increment()
		}
		time.Sleep(60 * time.Millisecond)
	}
	p.Wait()
}
