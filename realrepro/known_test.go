package realrepro

import (
	"fmt"
	"io"
	"os"
	"runtime"
	"strings"
	"testing"
	"time"

	"github.com/vbauerster/mpb/v8"
	"github.com/vbauerster/mpb/v8/decor"
	"scen"
)

// Recorded (unrepaired) finding F-POP-CLIPPED, shown on the real package and runtime. The test FAILS by design and
// therefore only runs when REPLAY_KNOWN=1 (run_known.sh does that); it is documentation, not a check.
//
// Pop-completed mode on a pseudo terminal of 3 lines (frame height 2) with 3 bar rows: bar A (own row + one extender
// row) and bar B. Frames are clipped from the top, so A's own row is never on screen; when A finishes it is counted as
// popped and dropped, and its final state is never drawn anywhere.
func TestKnownPopClipped(t *testing.T) {
	if os.Getenv("REPLAY_KNOWN") == "" {
		t.Skip("set REPLAY_KNOWN=1 to replay the recorded finding")
	}
	pty, err := scen.OpenPty(40, 3)
	if err != nil {
		t.Skip("no pty:", err)
	}
	refresh := make(chan interface{})
	p := mpb.New(mpb.WithOutput(pty.Slave), mpb.WithManualRefresh(refresh), mpb.PopCompletedMode())
	ext := mpb.BarFillerFunc(func(w io.Writer, st decor.Statistics) error {
		_, err := fmt.Fprintf(w, "extender-of-A %d/%d\n", st.Current, st.Total)
		return err
	})
	a := p.AddBar(2, mpb.BarExtender(ext, false), mpb.PrependDecorators(decor.Name("barA"), decor.OnComplete(decor.Name(" running"), " FINISHED")))
	b := p.AddBar(2, mpb.PrependDecorators(decor.Name("barB")))
	frame := func(n int) {
		for i := 0; i < n; i++ {
			refresh <- time.Now()
		}
	}
	frame(2)
	a.IncrBy(2)
	frame(5)
	b.IncrBy(2)
	frame(4)
	p.Wait()
	term := scen.NewTerm(40, 3)
	term.Write(pty.Finish())
	all := strings.Join(append(append([]string{}, term.Scrollback...), term.Lines()...), "\n")
	t.Logf("terminal history:\n%s", all)
	if !strings.Contains(all, "barA FINISHED") {
		t.Errorf("POP-CLIPPED: bar A finished in pop-completed mode but its final state was never drawn (its extender row: %v)", strings.Contains(all, "extender-of-A 2/2"))
	}
}

// Recorded finding F-POP-DELAY: pop-completed mode with WithRenderDelay. Render cycles run during the delay with
// their output discarded, so a bar that finishes before the delay ends goes through its pop frame unseen and is then
// dropped: it never reaches the screen.
func TestKnownPopDuringRenderDelay(t *testing.T) {
	if os.Getenv("REPLAY_KNOWN") == "" {
		t.Skip("set REPLAY_KNOWN=1 to replay the recorded finding")
	}
	var out strings.Builder
	refresh := make(chan interface{})
	delay := make(chan struct{})
	p := mpb.New(mpb.WithOutput(&out), mpb.WithManualRefresh(refresh), mpb.PopCompletedMode(), mpb.WithRenderDelay(delay), mpb.WithWidth(40))
	a := p.AddBar(1, mpb.PrependDecorators(decor.Name("barA"), decor.OnComplete(decor.Name(" running"), " FINISHED")))
	b := p.AddBar(2, mpb.PrependDecorators(decor.Name("barB")))
	a.Increment()
	for i := 0; i < 4; i++ {
		refresh <- time.Now()
	}
	close(delay)
	for i := 0; i < 3; i++ {
		refresh <- time.Now()
	}
	b.IncrBy(2)
	for i := 0; i < 3; i++ {
		refresh <- time.Now()
	}
	p.Wait()
	if !strings.Contains(out.String(), "barA FINISHED") {
		t.Errorf("POP-DELAY: bar A finished during the render delay and was never drawn (output has barB: %v)", strings.Contains(out.String(), "barB"))
	}
}

// Recorded finding F-ADD-WAIT: Progress.Add served while another goroutine is inside Progress.Wait. The container
// counts its bars in a sync.WaitGroup: Wait blocks in bwg.Wait(), newBar does bwg.Add(1) from the container goroutine.
// When the last running bar finishes, the counter reaches zero and the waiter is released; an Add served before the
// waiter has returned takes the counter up from zero again, which sync.WaitGroup forbids: the runtime panics with
// "WaitGroup is reused before previous Wait has returned" (in the caller of Wait) or "WaitGroup misuse: Add called
// concurrently with Wait" (in the container goroutine). Allowed outcomes are "bar added" or ErrDone. (Pattern by a
// bug-hunting sub-agent; roughly one iteration in a few hundred hits the window.)
func TestKnownAddWhileWait(t *testing.T) {
	if os.Getenv("REPLAY_KNOWN") == "" {
		t.Skip("set REPLAY_KNOWN=1 to replay the recorded finding")
	}
	for i := 0; i < 200000; i++ {
		p := mpb.New(mpb.WithOutput(io.Discard))
		a := p.AddBar(1)
		waitRes := make(chan interface{}, 1)
		go func() {
			defer func() { waitRes <- recover() }()
			p.Wait()
		}()
		runtime.Gosched()
		a.Increment()
		if b, err := p.Add(1, nil); err == nil {
			b.Increment()
		}
		if r := <-waitRes; r != nil {
			t.Fatalf("ADD-WAIT: iteration %d: Progress.Wait panicked: %v", i, r)
		}
	}
}
