package realrepro

import (
	"strings"
	"testing"

	"github.com/vbauerster/mpb/v8"
	"github.com/vbauerster/mpb/v8/decor"
)

type frameSink struct{ ch chan string }

func (f frameSink) Write(p []byte) (int, error) { f.ch <- string(p); return len(p), nil }

func barOrder(frame string) string {
	var out []string
	for _, line := range strings.Split(frame, "\n") {
		for _, n := range []string{"A:", "B:", "C:"} {
			if i := strings.Index(line, n); i >= 0 {
				out = append(out, line[i:i+1])
			}
		}
	}
	return strings.Join(out, "")
}

// C18 (and C06, last sentence), found by the C18 check's prio-window programs: in pop-completed mode a finished bar
// receives its pop priority in the second frame after it finished and is popped (drawn above all running bars, then
// left alone) in the third. A SetPriority on that bar in between used to override the pop priority: the bar was drawn
// below the running bars in the frame that pops it, but still counted as popped, so the next frame's cursor arithmetic
// left a stale copy of a running bar on screen and overwrote the finished one.
func TestC18PriorityChangeOnPoppedBar(t *testing.T) {
	out := frameSink{make(chan string, 64)}
	req := make(chan interface{})
	p := mpb.New(mpb.WithOutput(out), mpb.WithManualRefresh(req), mpb.PopCompletedMode(), mpb.WithWidth(30))
	a := p.AddBar(1, mpb.PrependDecorators(decor.Name("A:")))
	b := p.AddBar(9, mpb.PrependDecorators(decor.Name("B:")))
	c := p.AddBar(9, mpb.PrependDecorators(decor.Name("C:")))
	frame := func() string { req <- nil; return barOrder(<-out.ch) }
	a.Increment()
	f1, f2 := frame(), frame() // second frame: A is given its pop priority
	a.SetPriority(7)           // valid call on a finished bar that is still displayed
	f3 := frame()              // A is popped in this frame
	if f1 != "ABC" || f2 != "ABC" || f3 != "ABC" {
		t.Errorf("frames top to bottom: %s | %s | %s, want ABC in each: the finished bar must be popped above the running bars", f1, f2, f3)
	}
	b.IncrBy(9)
	c.IncrBy(9)
	done := make(chan struct{})
	go func() {
		for range out.ch {
		}
	}()
	go func() {
		for {
			select {
			case req <- nil:
			case <-done:
				return
			}
		}
	}()
	p.Wait()
	close(done)
}
