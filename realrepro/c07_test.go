package realrepro

import (
	"bytes"
	"strings"
	"testing"
	"time"

	"github.com/mattn/go-runewidth"
	"github.com/vbauerster/mpb/v8"
	"github.com/vbauerster/mpb/v8/decor"
)

// C07: an empty (or zero-width) style component made the fill loops spin for ever.
func TestC07EmptyComponentTerminates(t *testing.T) {
	for name, f := range map[string]mpb.BarFiller{
		"Padding(\"\")":     mpb.BarStyle().Padding("").Build(),
		"Filler(\"\")":      mpb.BarStyle().Filler("").Build(),
		"Refiller(\"\")":    mpb.BarStyle().Refiller("").Build(),
		"Filler(combining)": mpb.BarStyle().Filler("́").Build(),
	} {
		done := make(chan string, 1)
		go func() {
			var buf bytes.Buffer
			_ = f.Fill(&buf, decor.Statistics{AvailableWidth: 10, Total: 4, Current: 2, Refill: 1})
			done <- buf.String()
		}()
		select {
		case out := <-done:
			if w := runewidth.StringWidth(out); w != 10 {
				t.Errorf("%s: body is %d columns wide, want 10: %q", name, w, out)
			}
		case <-time.After(2 * time.Second):
			t.Errorf("%s: Fill did not return within 2s", name)
		}
	}
}

// C07: a tip wider than the filled width overflowed the body.
func TestC07WideTipFits(t *testing.T) {
	var buf bytes.Buffer
	f := mpb.BarStyle().Tip("=>").Build()
	_ = f.Fill(&buf, decor.Statistics{AvailableWidth: 3, Total: 4, Current: 2})
	if w := runewidth.StringWidth(buf.String()); w != 3 {
		t.Errorf("Tip(\"=>\") at width 3: body is %d columns wide: %q", w, buf.String())
	}
}

// C07 (C04), reported by two bug-hunting sub-agents and reproduced by the c07-row-message-fillers cases:
// BarFillerOnComplete / BarFillerOnAbort wrote their message without looking at the width left for the filler, so
// the row of a finished bar could be wider than the terminal (and wrap, leaving stale lines behind).
func TestC07MessageFillerFitsTheRow(t *testing.T) {
	for _, w := range []int{10, 20, 40} {
		var out strings.Builder
		refresh := make(chan interface{})
		p := mpb.New(mpb.WithOutput(&out), mpb.WithWidth(w), mpb.WithManualRefresh(refresh))
		b := p.AddBar(3, mpb.BarFillerOnComplete("all 3 files were downloaded and verified"),
			mpb.PrependDecorators(decor.Name("job")), mpb.AppendDecorators(decor.Percentage()))
		b.IncrBy(3)
		refresh <- time.Now()
		refresh <- time.Now()
		p.Wait()
		for _, line := range strings.Split(out.String(), "\n") {
			line = strings.TrimPrefix(line, "\x1b[1A\x1b[J")
			if n := runewidth.StringWidth(line); n > w {
				t.Errorf("container width %d: row %q is %d columns wide", w, line, n)
			}
		}
	}
}
