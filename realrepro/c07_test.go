package realrepro

import (
	"bytes"
	"testing"
	"time"

	"github.com/mattn/go-runewidth"
	"github.com/vbauerster/mpb/v8"
	"github.com/vbauerster/mpb/v8/decor"
)

// C07: an empty (or zero-width) style component made the fill loops spin for ever.
func TestC07EmptyComponentTerminates(t *testing.T) {
	for name, f := range map[string]mpb.BarFiller{
		"Padding(\"\")":        mpb.BarStyle().Padding("").Build(),
		"Filler(\"\")":         mpb.BarStyle().Filler("").Build(),
		"Refiller(\"\")":       mpb.BarStyle().Refiller("").Build(),
		"Filler(combining)":    mpb.BarStyle().Filler("́").Build(),
	} {
		done := make(chan string, 1)
		go func() {
			var buf bytes.Buffer
			_ = f.Fill(&buf, decor.Statistics{AvailableWidth: 10, Total: 4, Current: 2, Refill: 1})
			done <- buf.String()
		}()
		select {
		case out := <-done:
			if w := runewidth.StringWidth(out); w != 10 {
				t.Errorf("%s: body is %d columns wide, want 10: %q", name, w, out)
			}
		case <-time.After(2 * time.Second):
			t.Errorf("%s: Fill did not return within 2s", name)
		}
	}
}

// C07: a tip wider than the filled width overflowed the body.
func TestC07WideTipFits(t *testing.T) {
	var buf bytes.Buffer
	f := mpb.BarStyle().Tip("=>").Build()
	_ = f.Fill(&buf, decor.Statistics{AvailableWidth: 3, Total: 4, Current: 2})
	if w := runewidth.StringWidth(buf.String()); w != 3 {
		t.Errorf("Tip(\"=>\") at width 3: body is %d columns wide: %q", w, buf.String())
	}
}
