package realrepro

import (
	"io"
	"testing"
	"time"

	"github.com/vbauerster/mpb/v8"
)

// C10: run with `go test -race -run TestC10 .`
// Completed() called after the bar's goroutine has exited copied the whole bar
// state through the value receiver of completed(), while a frame being drawn
// from the published state executes s.shutdown++ : a data race reported by the
// race detector (found by `mc check C10` in its race variant: key
// RACE:(*Bar).Completed|(*Bar).render.func1).
func TestC10CompletedAfterExitVsRender(t *testing.T) {
	for i := 0; i < 200; i++ {
		p := mpb.New(mpb.WithOutput(io.Discard), mpb.WithAutoRefresh(), mpb.WithRefreshRate(time.Millisecond))
		b := p.AddBar(1)
		other := p.AddBar(1) // keeps the container rendering after b is done
		b.Increment()
		b.Wait()
		stop := make(chan struct{})
		go func() {
			for {
				select {
				case <-stop:
					return
				default:
					_ = b.Completed()
				}
			}
		}()
		time.Sleep(5 * time.Millisecond)
		close(stop)
		other.Increment()
		p.Wait()
	}
}
