package realrepro

import (
	"fmt"
	"io"
	"sync"
	"testing"
	"time"

	"github.com/vbauerster/mpb/v8"
	"github.com/vbauerster/mpb/v8/decor"
)

// C10: run with `go test -race -run TestC10 .`
// Completed() called after the bar's goroutine has exited copied the whole bar
// state through the value receiver of completed(), while a frame being drawn
// from the published state executes s.shutdown++ : a data race reported by the
// race detector (found by `mc check C10` in its race variant: key
// RACE:(*Bar).Completed|(*Bar).render.func1).
func TestC10CompletedAfterExitVsRender(t *testing.T) {
	for i := 0; i < 200; i++ {
		p := mpb.New(mpb.WithOutput(io.Discard), mpb.WithAutoRefresh(), mpb.WithRefreshRate(time.Millisecond))
		b := p.AddBar(1)
		other := p.AddBar(1) // keeps the container rendering after b is done
		b.Increment()
		b.Wait()
		stop := make(chan struct{})
		go func() {
			for {
				select {
				case <-stop:
					return
				default:
					_ = b.Completed()
				}
			}
		}()
		time.Sleep(5 * time.Millisecond)
		close(stop)
		other.Increment()
		p.Wait()
	}
}

// C10, found by the c10r-shared-extender race programs (after a sub-agent's aside): BarExtender created the buffer
// that collects the extender's lines when the OPTION was built, not when it was applied, so every bar given the same
// option value shared one bytes.Buffer, filled and drained by each bar's own goroutine. Run with -race.
func TestC10SharedExtenderOption(t *testing.T) {
	p := mpb.New(mpb.WithOutput(io.Discard), mpb.WithAutoRefresh(), mpb.WithRefreshRate(time.Millisecond))
	ext := mpb.BarExtender(mpb.BarFillerFunc(func(w io.Writer, st decor.Statistics) error {
		_, err := fmt.Fprintf(w, "details of bar %d: %d/%d\n", st.ID, st.Current, st.Total)
		return err
	}), false)
	var bars []*mpb.Bar
	for i := 0; i < 4; i++ {
		bars = append(bars, p.AddBar(50, ext))
	}
	var wg sync.WaitGroup
	for _, b := range bars {
		wg.Add(1)
		go func(b *mpb.Bar) {
			defer wg.Done()
			for i := 0; i < 50; i++ {
				b.Increment()
				time.Sleep(200 * time.Microsecond)
			}
		}(b)
	}
	wg.Wait()
	p.Wait()
}
