// C03, found by a bug-hunting sub-agent and reproduced by the c03-cancel-while-bar-busy program (d <= 1): a bar cancelled
// from outside while its goroutine is busy could be drawn running in the last frame. Test written by the sub-agent.
// Defect 4: a bar aborted by cancelling the container's context (NewWithContext / Shutdown) can
// be drawn in the LAST frame as a running bar (no on-abort decoration, Statistics.Aborted ==
// false) although Aborted() reports true once Wait has returned: the bar's goroutine chooses at
// random between the pending render request and ctx.Done().
//
// The test keeps the bar's goroutine busy (a TraverseDecorators callback that takes 5 ms - any
// slow operation executed by the bar goroutine does: EwmaIncrement with a slow decorator, a
// ProxyReader ...) while the context is cancelled.
//
// Run (from the worktree root, with defect_helper_test.go copied next to it):
//
//	export GOFLAGS=-mod=mod GOPROXY=off GOSUMDB=off GOTOOLCHAIN=local
//	go test -count=1 -run 'TestDefect4' -v .
//
// Schedule dependent: about half of the iterations fail (55/100 in an exploratory run; 40
// iterations here, the test as a whole failed on every run).
package realrepro

import (
	"context"
	"strings"
	"sync"
	"testing"
	"time"

	"github.com/vbauerster/mpb/v8"
	"github.com/vbauerster/mpb/v8/decor"
)

func TestC03CancelledBusyBarDrawnAbortedCtxCancelLastFrameShowsRunningBar(t *testing.T) {
	const N = 40
	fails := 0
	for i := 0; i < N; i++ {
		var out huntBuf
		ctx, cancel := context.WithCancel(context.Background())
		p := mpb.NewWithContext(ctx, mpb.WithOutput(&out), mpb.WithAutoRefresh(), mpb.WithWidth(40),
			mpb.WithRefreshRate(50*time.Millisecond))
		bar := p.AddBar(3, mpb.AppendDecorators(decor.OnAbort(decor.Name("run"), "ABORTED")))
		bar.IncrBy(1)
		for out.Len() == 0 { // wait for the first frame
			time.Sleep(time.Millisecond)
		}
		in, release := make(chan struct{}), make(chan struct{})
		var once sync.Once
		go bar.TraverseDecorators(func(decor.Decorator) {
			once.Do(func() { close(in); <-release }) // the bar goroutine is busy for 5 ms
		})
		<-in
		cancel()
		time.Sleep(5 * time.Millisecond)
		close(release)
		if !huntWait(t, p, 20*time.Second) {
			return
		}
		if !bar.Aborted() || bar.Completed() {
			t.Fatalf("expected an aborted bar, got aborted=%v completed=%v", bar.Aborted(), bar.Completed())
		}
		scr := huntScreen(out.String())
		if len(scr) != 1 || !strings.Contains(scr[0], "ABORTED") {
			fails++
			if fails == 1 {
				t.Logf("iteration %d: Aborted()=true, screen after Wait: %q", i, scr)
			}
		}
	}
	if fails > 0 {
		t.Errorf("%d/%d runs: the last frame shows the aborted bar without its on-abort decoration", fails, N)
	}
}
