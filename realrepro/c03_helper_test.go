// Shared helpers of the defect<k>_test.go files (package mpb_test, public API only).
// Copy this file together with the defect<k>_test.go files into the root of the
// mpb worktree (next to bar.go).
package realrepro

import (
	"regexp"
	"strconv"
	"strings"
	"sync"
	"testing"
	"time"

	"github.com/vbauerster/mpb/v8"
)

// huntBuf is a goroutine safe recording writer (the container's output).
type huntBuf struct {
	mu  sync.Mutex
	buf []byte
}

func (s *huntBuf) Write(p []byte) (int, error) {
	s.mu.Lock()
	defer s.mu.Unlock()
	s.buf = append(s.buf, p...)
	return len(p), nil
}

func (s *huntBuf) String() string {
	s.mu.Lock()
	defer s.mu.Unlock()
	return string(s.buf)
}

func (s *huntBuf) Len() int {
	s.mu.Lock()
	defer s.mu.Unlock()
	return len(s.buf)
}

var huntCuuRe = regexp.MustCompile("\x1b\\[(\\d+)A\x1b\\[J")

// huntScreen replays the byte stream the way a (tall enough) terminal does:
// every row ends with \n; ESC[nA ESC[J moves n lines up and erases to the end
// of the screen. The result is what is on the screen after the last byte.
func huntScreen(out string) []string {
	var screen []string
	for len(out) > 0 {
		loc := huntCuuRe.FindStringSubmatchIndex(out)
		var text string
		var up int
		if loc == nil {
			text, out = out, ""
		} else {
			text = out[:loc[0]]
			up, _ = strconv.Atoi(out[loc[2]:loc[3]])
			out = out[loc[1]:]
		}
		if text != "" {
			lines := strings.Split(text, "\n")
			if lines[len(lines)-1] == "" {
				lines = lines[:len(lines)-1]
			}
			screen = append(screen, lines...)
		}
		if up > 0 {
			if up > len(screen) {
				up = len(screen)
			}
			screen = screen[:len(screen)-up]
		}
	}
	return screen
}

func huntWait(t *testing.T, p *mpb.Progress, d time.Duration) bool {
	t.Helper()
	done := make(chan struct{})
	go func() { p.Wait(); close(done) }()
	select {
	case <-done:
		return true
	case <-time.After(d):
		t.Errorf("Progress.Wait did not return within %v", d)
		return false
	}
}

func huntCount(screen []string, sub string) int {
	n := 0
	for _, l := range screen {
		if strings.Contains(l, sub) {
			n++
		}
	}
	return n
}
