package realrepro

import (
	"testing"
	"time"

	"github.com/vbauerster/mpb/v8/decor"
)

// C20, found by the c20-eta-precision cases (after a sub-agent's aside): the ETA decorators rounded the average
// duration per item to whole nanoseconds before multiplying by the items left. For byte counts that is coarse: at
// 700 MB/s (1.43 ns per byte) the estimate was 30 % short, above 2 GB/s it was "0s".
func TestC20ETAKeepsSubNanosecondAverage(t *testing.T) {
	dec := decor.EwmaETA(decor.ET_STYLE_GO, 30)
	// one sample: 1 GB in 400 ms = 0.4 ns per byte
	dec.(decor.EwmaDecorator).EwmaUpdate(1e9, 400*time.Millisecond)
	out, _ := dec.Decor(decor.Statistics{Total: 101e9, Current: 1e9}) // 100 GB left: 40 s
	got, err := time.ParseDuration(out)
	if err != nil || got < 39*time.Second || got > 41*time.Second {
		t.Fatalf("100 GB left at 0.4 ns per byte: ETA printed %q, want about 40s", out)
	}
}

// C20, found by the c20-clock first-frame-completed cases (same aside): Elapsed and AverageSpeed only computed their
// text while the bar was running, so a bar that had finished before its first frame (a short task between two
// refreshes) showed an empty column.
func TestC20ElapsedOfBarFirstDrawnCompleted(t *testing.T) {
	el := decor.NewElapsed(decor.ET_STYLE_GO, time.Now().Add(-90*time.Second))
	sp := decor.NewAverageSpeed(decor.SizeB1024(0), "% .1f", time.Now().Add(-2*time.Second))
	st := decor.Statistics{Total: 1 << 20, Current: 1 << 20, Completed: true}
	if out, _ := el.Decor(st); out != "1m30s" {
		t.Errorf("elapsed of a bar first drawn completed after 90 s printed %q, want 1m30s", out)
	}
	if out, _ := sp.Decor(st); out != "512.0 KiB/s" {
		t.Errorf("average speed of 1 MiB in 2 s on a bar first drawn completed printed %q, want 512.0 KiB/s", out)
	}
}

// C20, reported by a bug-hunting sub-agent, reproduced by the c20-clock cases once the clock advances between the last
// running frame and the completion: both decorators repeated the text of the last running frame for good.
func TestC20ValuesAtCompletion(t *testing.T) {
	start := time.Now().Add(-2 * time.Second)
	el := decor.NewElapsed(decor.ET_STYLE_GO, start.Add(-88*time.Second))
	sp := decor.NewAverageSpeed(decor.SizeB1024(0), "% .1f", start)
	running := decor.Statistics{Total: 1 << 20, Current: 0}
	el.Decor(running)
	sp.Decor(running)
	done := decor.Statistics{Total: 1 << 20, Current: 1 << 20, Completed: true}
	if out, _ := el.Decor(done); out != "1m30s" {
		t.Errorf("elapsed on the frame that shows the bar completed: %q, want 1m30s", out)
	}
	if out, _ := sp.Decor(done); out != "512.0 KiB/s" {
		t.Errorf("average speed of 1 MiB in 2 s on the frame that shows the bar completed: %q, want 512.0 KiB/s", out)
	}
}
