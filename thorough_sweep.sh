#!/bin/bash
# thorough_sweep.sh: run every thorough check once (scratch build dir, evidence copied to evidence-thorough/)
cd /verif
for p in "$@"; do
  B=/var/tmp/thorough-$p; mkdir -p $B/out
  s=$(date +%s)
  MC_BUILD=$B MC_VERIF_OUT=$B/out ./mc.sh check $p --tier thorough --workers ${WORKERS:-10} --budget ${BUDGET:-2400} > thoroughlogs/$p.log 2>&1
  rc=$?
  e=$(date +%s)
  echo "$p rc=$rc wall=$((e-s))s $(grep -E ' thorough: items=' thoroughlogs/$p.log | cut -c1-200)" >> thoroughlogs/SUMMARY.txt
  cp $B/out/evidence/$p.json evidence-thorough/$p.json 2>/dev/null
  rm -rf $B
done
echo sweep done >> thoroughlogs/SUMMARY.txt
