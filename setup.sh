#!/bin/bash
# setup.sh: build the framework from files on disk only (offline), warm the build cache, run the shim litmus suite.
export GOFLAGS=-mod=mod GOPROXY=off GOSUMDB=off GOTOOLCHAIN=local
set -e
cd /verif
mkdir -p bin build evidence replays
(cd mcgen && go build -o /verif/bin/mcgen .)
(cd mcrt && go vet ./... && go test -count=1 ./explore/)
# first generation + build so that checks only pay incremental cost
./bin/mcgen -src /repo -out build/gen/mpb
./bin/mcgen -nofuel -src scen -out build/gen/scen -replace "github.com/vbauerster/mpb/v8=>/verif/build/gen/mpb"
(cd mc && go build -o /verif/build/mc-setup . && rm -f /verif/build/mc-setup)
./mcrt/racelitmus/run.sh
(cd realrepro && go vet ./... >/dev/null 2>&1 || true)
echo "setup ok"
