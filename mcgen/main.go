// mcgen rewrites Go packages so that every concurrency construct goes
// through the controlled runtime mcrt. See /verif/DESIGN.md section 2.1.
package main

import (
	"bytes"
	"flag"
	"fmt"
	"go/ast"
	"go/format"
	"go/parser"
	"go/printer"
	"go/token"
	"go/types"
	"os"
	"path/filepath"
	"sort"
	"strconv"
	"strings"

	"golang.org/x/tools/go/ast/astutil"
	"golang.org/x/tools/go/packages"
)

var (
	flagSrc  = flag.String("src", "", "module directory to rewrite")
	flagOut  = flag.String("out", "", "output directory for the rewritten module")
	flagMcrt = flag.String("mcrt", "/verif/mcrt", "path of the mcrt module")
	flagRepl = flag.String("replace", "", "extra replace directives for the generated go.mod: mod=>path,mod=>path")
	flagNoFuel = flag.Bool("nofuel", false, "do not insert loop fuel")
)

func die(f string, a ...interface{}) {
	fmt.Fprintf(os.Stderr, "mcgen: "+f+"\n", a...)
	os.Exit(2)
}

func main() {
	flag.Parse()
	if *flagSrc == "" || *flagOut == "" {
		die("usage: mcgen -src DIR -out DIR")
	}
	src, _ := filepath.Abs(*flagSrc)
	out, _ := filepath.Abs(*flagOut)
	cfg := &packages.Config{
		Mode: packages.NeedName | packages.NeedFiles | packages.NeedCompiledGoFiles | packages.NeedImports |
			packages.NeedDeps | packages.NeedTypes | packages.NeedSyntax | packages.NeedTypesInfo | packages.NeedModule,
		Dir: src,
		Env: append(os.Environ(), "GOFLAGS=-mod=mod", "GOPROXY=off", "GOSUMDB=off", "GOTOOLCHAIN=local"),
	}
	pkgs, err := packages.Load(cfg, "./...")
	if err != nil {
		die("load: %v", err)
	}
	bad := false
	for _, p := range pkgs {
		for _, e := range p.Errors {
			fmt.Fprintf(os.Stderr, "mcgen: %s: %v\n", p.PkgPath, e)
			bad = true
		}
	}
	if bad {
		die("source does not type-check")
	}
	if err := os.RemoveAll(out); err != nil {
		die("%v", err)
	}
	var modPath string
	nfiles := 0
	for _, p := range pkgs {
		if p.Module == nil || p.Module.Dir != src {
			continue
		}
		modPath = p.Module.Path
		for i, f := range p.Syntax {
			name := p.CompiledGoFiles[i]
			rel, err := filepath.Rel(src, name)
			if err != nil || strings.HasPrefix(rel, "..") {
				die("file %s outside module", name)
			}
			r := &rw{fset: p.Fset, info: p.TypesInfo, pkg: p.Types, file: f}
			code, err := r.rewrite()
			if err != nil {
				die("%s: %v", rel, err)
			}
			dst := filepath.Join(out, rel)
			if err := os.MkdirAll(filepath.Dir(dst), 0o755); err != nil {
				die("%v", err)
			}
			if err := os.WriteFile(dst, code, 0o644); err != nil {
				die("%v", err)
			}
			nfiles++
		}
	}
	if modPath == "" {
		die("no packages of the module at %s were loaded", src)
	}
	// go.mod / go.sum
	gm, err := os.ReadFile(filepath.Join(src, "go.mod"))
	if err != nil {
		die("%v", err)
	}
	var b bytes.Buffer
	over := map[string]string{"mcrt": *flagMcrt}
	if *flagRepl != "" {
		for _, r := range strings.Split(*flagRepl, ",") {
			kv := strings.SplitN(r, "=>", 2)
			over[strings.TrimSpace(kv[0])] = strings.TrimSpace(kv[1])
		}
	}
	for _, line := range strings.Split(string(gm), "\n") {
		t := strings.TrimSpace(line)
		if strings.HasPrefix(t, "go ") || strings.HasPrefix(t, "toolchain ") {
			continue
		}
		if strings.HasPrefix(t, "replace ") {
			f := strings.Fields(t)
			if len(f) >= 2 {
				if _, ok := over[f[1]]; ok {
					continue
				}
			}
			if strings.Contains(t, "=> .") {
				parts := strings.SplitN(t, "=>", 2)
				line = parts[0] + "=> " + filepath.Join(src, strings.TrimSpace(parts[1]))
			}
		}
		if t == "mcrt v0.0.0" || t == "require mcrt v0.0.0" {
			continue
		}
		b.WriteString(line + "\n")
	}
	// go 1.21: generics available, per-loop loop variables (pre-1.22 semantics) kept
	b.WriteString("\ngo 1.21\n\nrequire mcrt v0.0.0\n\n")
	var names []string
	for k := range over {
		names = append(names, k)
	}
	sort.Strings(names)
	for _, k := range names {
		b.WriteString("replace " + k + " => " + over[k] + "\n")
	}
	if err := os.WriteFile(filepath.Join(out, "go.mod"), b.Bytes(), 0o644); err != nil {
		die("%v", err)
	}
	if gs, err := os.ReadFile(filepath.Join(src, "go.sum")); err == nil {
		_ = os.WriteFile(filepath.Join(out, "go.sum"), gs, 0o644)
	}
	fmt.Printf("mcgen: %s: %d files rewritten into %s\n", modPath, nfiles, out)
}

type rw struct {
	fset *token.FileSet
	info *types.Info
	pkg  *types.Package
	file *ast.File

	needMcrt, needXtime bool

	chanRange  map[*ast.RangeStmt]bool
	mapRange   map[*ast.RangeStmt]bool
	lenCap     map[*ast.CallExpr]string
	closeCall  map[*ast.CallExpr]bool
	makeChan   map[*ast.CallExpr]bool
	makeNamed  map[*ast.CallExpr]*types.Named
	namedExpr  map[ast.Expr]bool
	nilNamed   map[*ast.Ident]*types.Named // `nil` used as a value of a named channel type
	namedSpec  map[*ast.TypeSpec]bool
	recvCalls  map[*ast.CallExpr]bool
	sendCalls  map[*ast.CallExpr]bool
	goEncl     map[*ast.GoStmt]string
	timeIdents map[*ast.Ident]bool
	nsel       int
	err        error
}

var timeFuncs = map[string]bool{"Now": true, "Since": true, "Until": true, "Sleep": true, "NewTicker": true, "NewTimer": true,
	"After": true, "Tick": true, "AfterFunc": true, "Ticker": true, "Timer": true}

var importMap = map[string][2]string{
	"sync":        {"sync", "mcrt/xsync"},
	"sync/atomic": {"atomic", "mcrt/xatomic"},
	"context":     {"context", "mcrt/xcontext"},
}

func isChan(t types.Type) bool {
	if t == nil {
		return false
	}
	_, ok := t.Underlying().(*types.Chan)
	return ok
}

func namedChan(t types.Type) *types.Named {
	if t == nil {
		return nil
	}
	if n, ok := t.(*types.Named); ok {
		if _, ok := n.Underlying().(*types.Chan); ok {
			return n
		}
	}
	return nil
}

func (r *rw) site(p token.Pos) string {
	pos := r.fset.Position(p)
	return filepath.Base(pos.Filename) + ":" + strconv.Itoa(pos.Line)
}

func ident(s string) *ast.Ident { return ast.NewIdent(s) }

func sel(x ast.Expr, name string) *ast.SelectorExpr {
	return &ast.SelectorExpr{X: x, Sel: ident(name)}
}

func call(fun ast.Expr, args ...ast.Expr) *ast.CallExpr {
	return &ast.CallExpr{Fun: fun, Args: args}
}

func strLit(s string) *ast.BasicLit {
	return &ast.BasicLit{Kind: token.STRING, Value: strconv.Quote(s)}
}

func (r *rw) mcrt(name string) ast.Expr {
	r.needMcrt = true
	return sel(ident("mcrt"), name)
}

func (r *rw) chanTypeExpr(elem ast.Expr) ast.Expr {
	return &ast.StarExpr{X: &ast.IndexExpr{X: r.mcrt("Chan"), Index: elem}}
}

func unparen(e ast.Expr) ast.Expr {
	for {
		p, ok := e.(*ast.ParenExpr)
		if !ok {
			return e
		}
		e = p.X
	}
}

func (r *rw) prepass() {
	r.chanRange = map[*ast.RangeStmt]bool{}
	r.mapRange = map[*ast.RangeStmt]bool{}
	r.lenCap = map[*ast.CallExpr]string{}
	r.closeCall = map[*ast.CallExpr]bool{}
	r.makeChan = map[*ast.CallExpr]bool{}
	r.makeNamed = map[*ast.CallExpr]*types.Named{}
	r.namedExpr = map[ast.Expr]bool{}
	r.nilNamed = map[*ast.Ident]*types.Named{}
	r.namedSpec = map[*ast.TypeSpec]bool{}
	r.recvCalls = map[*ast.CallExpr]bool{}
	r.sendCalls = map[*ast.CallExpr]bool{}
	r.goEncl = map[*ast.GoStmt]string{}
	r.timeIdents = map[*ast.Ident]bool{}
	var encl []string
	var stack []ast.Node
	ast.Inspect(r.file, func(n ast.Node) bool {
		if n == nil {
			top := stack[len(stack)-1]
			stack = stack[:len(stack)-1]
			if _, ok := top.(*ast.FuncDecl); ok {
				encl = encl[:len(encl)-1]
			}
			return true
		}
		stack = append(stack, n)
		switch x := n.(type) {
		case *ast.FuncDecl:
			name := x.Name.Name
			if x.Recv != nil && len(x.Recv.List) == 1 {
				t := x.Recv.List[0].Type
				if s, ok := t.(*ast.StarExpr); ok {
					t = s.X
				}
				if ix, ok := t.(*ast.IndexExpr); ok {
					t = ix.X
				}
				if id, ok := t.(*ast.Ident); ok {
					name = id.Name + "." + name
				}
			}
			encl = append(encl, name)
		case *ast.GoStmt:
			e := "?"
			if len(encl) > 0 {
				e = encl[len(encl)-1]
			}
			r.goEncl[x] = e
		case *ast.RangeStmt:
			t := r.info.TypeOf(x.X)
			if isChan(t) {
				r.chanRange[x] = true
				if namedChan(t) != nil {
					r.namedExpr[x.X] = true
				}
			} else if t != nil {
				if m, ok := t.Underlying().(*types.Map); ok {
					if b, ok := m.Key().Underlying().(*types.Basic); ok && b.Info()&types.IsOrdered != 0 {
						r.mapRange[x] = true
					}
				}
			}
		case *ast.TypeSpec:
			if _, ok := x.Type.(*ast.ChanType); ok && !x.Assign.IsValid() {
				r.namedSpec[x] = true
			}
		case *ast.CallExpr:
			if id, ok := unparen(x.Fun).(*ast.Ident); ok {
				if b, ok := r.info.Uses[id].(*types.Builtin); ok {
					switch b.Name() {
					case "close":
						r.closeCall[x] = true
					case "len", "cap":
						if len(x.Args) == 1 && isChan(r.info.TypeOf(x.Args[0])) {
							r.lenCap[x] = strings.Title(b.Name())
						}
					case "make":
						if len(x.Args) >= 1 {
							if _, ok := x.Args[0].(*ast.ChanType); ok {
								r.makeChan[x] = true
							} else if n := namedChan(r.info.TypeOf(x)); n != nil {
								r.makeNamed[x] = n
							} else if isChan(r.info.TypeOf(x)) {
								r.err = fmt.Errorf("%s: make of an unnamed non-literal channel type is not supported", r.site(x.Pos()))
							}
						}
					}
				}
			}
		case *ast.SelectStmt:
			for _, cl := range x.Body.List {
				cc := cl.(*ast.CommClause)
				var ch ast.Expr
				switch c := cc.Comm.(type) {
				case *ast.SendStmt:
					ch = c.Chan
				case *ast.ExprStmt:
					if u, ok := unparen(c.X).(*ast.UnaryExpr); ok {
						ch = u.X
					}
				case *ast.AssignStmt:
					if u, ok := unparen(c.Rhs[0]).(*ast.UnaryExpr); ok {
						ch = u.X
					}
				}
				if ch != nil && namedChan(r.info.TypeOf(ch)) != nil {
					r.namedExpr[ch] = true
				}
			}
		case *ast.SelectorExpr:
			if id, ok := x.X.(*ast.Ident); ok {
				if pn, ok := r.info.Uses[id].(*types.PkgName); ok && pn.Imported().Path() == "time" && timeFuncs[x.Sel.Name] {
					r.timeIdents[id] = true
				}
			}
		case *ast.BinaryExpr:
			if x.Op == token.EQL || x.Op == token.NEQ {
				for _, pair := range [][2]ast.Expr{{x.X, x.Y}, {x.Y, x.X}} {
					if id, ok := unparen(pair[0]).(*ast.Ident); ok && id.Name == "nil" {
						if _, isNil := r.info.Uses[id].(*types.Nil); isNil {
							if n := namedChan(r.info.TypeOf(pair[1])); n != nil {
								r.nilNamed[id] = n
							}
						}
					}
				}
			}
		case *ast.Ident:
			if x.Name == "nil" {
				if _, isNil := r.info.Uses[x].(*types.Nil); isNil {
					if n := namedChan(r.info.TypeOf(x)); n != nil {
						r.nilNamed[x] = n // the named channel type becomes a struct: its nil is the zero struct
					}
				}
			}
			if x.Name == "mcrt" || x.Name == "xtime" {
				if obj := r.info.ObjectOf(x); obj != nil {
					if _, isPkg := obj.(*types.PkgName); !isPkg {
						r.err = fmt.Errorf("%s: identifier %q collides with a generated import", r.site(x.Pos()), x.Name)
					}
				}
			}
		}
		return true
	})
}

func (r *rw) typeExpr(t types.Type) (ast.Expr, error) {
	s := types.TypeString(t, func(p *types.Package) string {
		if p == r.pkg {
			return ""
		}
		return p.Name()
	})
	return parser.ParseExpr(s)
}

func (r *rw) rewrite() ([]byte, error) {
	r.prepass()
	if r.err != nil {
		return nil, r.err
	}
	r.file.Comments = nil
	astutil.Apply(r.file, r.pre, r.post)
	if r.err != nil {
		return nil, r.err
	}
	r.fixImports()
	var buf bytes.Buffer
	pcfg := printer.Config{Mode: printer.UseSpaces | printer.TabIndent, Tabwidth: 8}
	if err := pcfg.Fprint(&buf, r.fset, r.file); err != nil {
		return nil, err
	}
	out, err := format.Source(buf.Bytes())
	if err != nil {
		return buf.Bytes(), fmt.Errorf("generated code does not parse: %v", err)
	}
	return append([]byte("// Code generated by mcgen from the working tree. DO NOT EDIT.\n\n"), out...), nil
}

func (r *rw) pre(c *astutil.Cursor) bool {
	return true
}

func (r *rw) chanArg(e ast.Expr) ast.Expr {
	if r.namedExpr[e] {
		return sel(e, "Chan")
	}
	return e
}

func (r *rw) selectToSwitch(n *ast.SelectStmt) ast.Stmt {
	id := r.nsel
	r.nsel++
	var lhs, rhs []ast.Expr
	var clauses []ast.Stmt
	hasDefault := false
	k := 0
	for _, cl := range n.Body.List {
		cc := cl.(*ast.CommClause)
		if cc.Comm == nil {
			hasDefault = true
			clauses = append(clauses, &ast.CaseClause{List: []ast.Expr{&ast.UnaryExpr{Op: token.SUB, X: &ast.BasicLit{Kind: token.INT, Value: "1"}}}, Body: cc.Body})
			continue
		}
		name := fmt.Sprintf("_sc%d_%d", id, k)
		body := cc.Body
		bad := func(p token.Pos) ast.Stmt {
			r.err = fmt.Errorf("%s: unsupported select clause", r.site(p))
			return n
		}
		switch cm := cc.Comm.(type) {
		case *ast.ExprStmt:
			ce, ok := unparen(cm.X).(*ast.CallExpr)
			if !ok {
				return bad(cm.Pos())
			}
			switch {
			case r.sendCalls[ce]:
				lhs = append(lhs, ident(name))
				rhs = append(rhs, call(sel(ce.Fun.(*ast.SelectorExpr).X, "SendCase"), ce.Args[0]))
			case r.recvCalls[ce]:
				lhs = append(lhs, ident(name))
				rhs = append(rhs, call(sel(ce.Fun.(*ast.SelectorExpr).X, "RecvCase")))
			default:
				return bad(cm.Pos())
			}
		case *ast.AssignStmt:
			ce, ok := unparen(cm.Rhs[0]).(*ast.CallExpr)
			if !ok || !r.recvCalls[ce] {
				return bad(cm.Pos())
			}
			lhs = append(lhs, ident(name))
			rhs = append(rhs, call(sel(ce.Fun.(*ast.SelectorExpr).X, "RecvCase")))
			vals := []ast.Expr{call(sel(ident(name), "Val"))}
			if len(cm.Lhs) == 2 {
				vals = append(vals, call(sel(ident(name), "Ok")))
			}
			asg := &ast.AssignStmt{Lhs: cm.Lhs, Tok: cm.Tok, Rhs: vals}
			nb := []ast.Stmt{asg}
			if cm.Tok == token.DEFINE {
				// keep "declared and not used" from firing when the value is only bound
				for _, l := range cm.Lhs {
					if lid, ok := l.(*ast.Ident); ok && lid.Name != "_" {
						nb = append(nb, &ast.AssignStmt{Lhs: []ast.Expr{ident("_")}, Tok: token.ASSIGN, Rhs: []ast.Expr{ident(lid.Name)}})
					}
				}
			}
			body = append(nb, body...)
		default:
			return bad(cc.Pos())
		}
		clauses = append(clauses, &ast.CaseClause{List: []ast.Expr{&ast.BasicLit{Kind: token.INT, Value: strconv.Itoa(k)}}, Body: body})
		k++
	}
	args := []ast.Expr{ident(strconv.FormatBool(hasDefault))}
	for _, l := range lhs {
		args = append(args, ident(l.(*ast.Ident).Name))
	}
	// a select whose clauses all terminate is a terminating statement; keep that property
	clauses = append(clauses, &ast.CaseClause{Body: []ast.Stmt{&ast.ExprStmt{X: call(ident("panic"), r.mcrt("SelectFellThrough"))}}})
	sw := &ast.SwitchStmt{Tag: call(r.mcrt("Select"), args...), Body: &ast.BlockStmt{List: clauses}}
	if len(lhs) > 0 {
		sw.Init = &ast.AssignStmt{Lhs: lhs, Tok: token.DEFINE, Rhs: rhs}
	}
	return sw
}

func (r *rw) post(c *astutil.Cursor) bool {
	switch n := c.Node().(type) {
	case *ast.SelectStmt:
		c.Replace(r.selectToSwitch(n))
	case *ast.SendStmt:
		ce := call(sel(n.Chan, "Send"), n.Value)
		r.sendCalls[ce] = true
		c.Replace(&ast.ExprStmt{X: ce})
	case *ast.UnaryExpr:
		if n.Op == token.ARROW {
			ce := call(sel(n.X, "Recv"))
			r.recvCalls[ce] = true
			c.Replace(ce)
		}
	case *ast.AssignStmt:
		if len(n.Lhs) == 2 && len(n.Rhs) == 1 {
			if ce, ok := unparen(n.Rhs[0]).(*ast.CallExpr); ok && r.recvCalls[ce] {
				ce.Fun.(*ast.SelectorExpr).Sel = ident("Recv2")
			}
		}
	case *ast.ValueSpec:
		if len(n.Names) == 2 && len(n.Values) == 1 {
			if ce, ok := unparen(n.Values[0]).(*ast.CallExpr); ok && r.recvCalls[ce] {
				ce.Fun.(*ast.SelectorExpr).Sel = ident("Recv2")
			}
		}
	case *ast.ChanType:
		c.Replace(r.chanTypeExpr(n.Value))
	case *ast.TypeSpec:
		if r.namedSpec[n] {
			n.Type = &ast.StructType{Fields: &ast.FieldList{List: []*ast.Field{{Type: n.Type}}}}
		}
	case *ast.CallExpr:
		switch {
		case r.closeCall[n]:
			c.Replace(call(sel(n.Args[0], "Close")))
		case r.lenCap[n] != "":
			c.Replace(call(sel(n.Args[0], r.lenCap[n])))
		case r.makeChan[n]:
			// n.Args[0] is now *mcrt.Chan[T]
			st, ok := n.Args[0].(*ast.StarExpr)
			if !ok {
				r.err = fmt.Errorf("%s: internal: make(chan) argument not rewritten", r.site(n.Pos()))
				return true
			}
			elem := st.X.(*ast.IndexExpr).Index
			var size ast.Expr = &ast.BasicLit{Kind: token.INT, Value: "0"}
			if len(n.Args) > 1 {
				size = n.Args[1]
			}
			c.Replace(call(&ast.IndexExpr{X: r.mcrt("Make"), Index: elem}, size, strLit(r.site(n.Pos()))))
		case r.makeNamed[n] != nil:
			named := r.makeNamed[n]
			elemT := named.Underlying().(*types.Chan).Elem()
			elem, err := r.typeExpr(elemT)
			if err != nil {
				r.err = fmt.Errorf("%s: cannot express element type %s: %v", r.site(n.Pos()), elemT, err)
				return true
			}
			var size ast.Expr = &ast.BasicLit{Kind: token.INT, Value: "0"}
			if len(n.Args) > 1 {
				size = n.Args[1]
			}
			mk := call(&ast.IndexExpr{X: r.mcrt("Make"), Index: elem}, size, strLit(r.site(n.Pos())))
			c.Replace(&ast.CompositeLit{Type: n.Args[0], Elts: []ast.Expr{mk}})
		}
	case *ast.Ident:
		if named := r.nilNamed[n]; named != nil {
			te, err := r.typeExpr(named)
			if err != nil {
				r.err = fmt.Errorf("%s: cannot express type %s: %v", r.site(n.Pos()), named, err)
				return true
			}
			c.Replace(&ast.ParenExpr{X: &ast.CompositeLit{Type: te}})
		}
	case *ast.SelectorExpr:
		if id, ok := n.X.(*ast.Ident); ok && r.timeIdents[id] {
			r.needXtime = true
			n.X = ident("xtime")
		}
	case *ast.ForStmt:
		r.addFuel(n.Body)
	case *ast.RangeStmt:
		r.addFuel(n.Body)
		switch {
		case r.chanRange[n]:
			c.Replace(r.chanRangeToFor(n))
		case r.mapRange[n]:
			if st := r.mapRangeSorted(n); st != nil {
				c.Replace(st)
			}
		}
	case *ast.GoStmt:
		c.Replace(r.goToSpawn(n))
	}
	return true
}

func (r *rw) addFuel(b *ast.BlockStmt) {
	if *flagNoFuel || b == nil {
		return
	}
	b.List = append([]ast.Stmt{&ast.ExprStmt{X: call(r.mcrt("Fuel"))}}, b.List...)
}

func (r *rw) chanRangeToFor(n *ast.RangeStmt) ast.Stmt {
	var key ast.Expr = ident("_")
	if n.Key != nil {
		key = n.Key
	}
	okName := ident("_rok")
	tok := token.DEFINE
	if n.Tok == token.ASSIGN {
		// v already declared: declare only the ok flag
		return &ast.BlockStmt{List: []ast.Stmt{
			&ast.DeclStmt{Decl: &ast.GenDecl{Tok: token.VAR, Specs: []ast.Spec{&ast.ValueSpec{Names: []*ast.Ident{ident("_rok")}, Type: ident("bool")}}}},
			&ast.ForStmt{
				Init: &ast.AssignStmt{Lhs: []ast.Expr{key, okName}, Tok: token.ASSIGN, Rhs: []ast.Expr{call(sel(n.X, "Recv2"))}},
				Cond: okName,
				Post: &ast.AssignStmt{Lhs: []ast.Expr{key, okName}, Tok: token.ASSIGN, Rhs: []ast.Expr{call(sel(n.X, "Recv2"))}},
				Body: n.Body,
			}}}
	}
	return &ast.ForStmt{
		Init: &ast.AssignStmt{Lhs: []ast.Expr{key, okName}, Tok: tok, Rhs: []ast.Expr{call(sel(n.X, "Recv2"))}},
		Cond: okName,
		Post: &ast.AssignStmt{Lhs: []ast.Expr{key, okName}, Tok: token.ASSIGN, Rhs: []ast.Expr{call(sel(n.X, "Recv2"))}},
		Body: n.Body,
	}
}

func sideEffectFree(e ast.Expr) bool {
	switch x := e.(type) {
	case *ast.Ident:
		return true
	case *ast.SelectorExpr:
		return sideEffectFree(x.X)
	case *ast.ParenExpr:
		return sideEffectFree(x.X)
	case *ast.StarExpr:
		return sideEffectFree(x.X)
	}
	return false
}

func (r *rw) mapRangeSorted(n *ast.RangeStmt) ast.Stmt {
	if n.Tok != token.DEFINE || !sideEffectFree(n.X) {
		return nil
	}
	if n.Key == nil {
		return nil
	}
	key := n.Key
	if id, ok := key.(*ast.Ident); ok && id.Name == "_" {
		if n.Value == nil {
			return nil
		}
		key = ident("_mk")
	}
	body := n.Body
	if n.Value != nil {
		if id, ok := n.Value.(*ast.Ident); !ok || id.Name != "_" {
			asg := &ast.AssignStmt{Lhs: []ast.Expr{n.Value}, Tok: token.DEFINE, Rhs: []ast.Expr{&ast.IndexExpr{X: n.X, Index: key}}}
			body = &ast.BlockStmt{List: append([]ast.Stmt{asg}, body.List...)}
		}
	}
	return &ast.RangeStmt{Key: ident("_"), Value: key, Tok: token.DEFINE, X: call(r.mcrt("SortedKeys"), n.X), Body: body}
}

func exprString(fset *token.FileSet, e ast.Expr) string {
	var b bytes.Buffer
	_ = printer.Fprint(&b, fset, e)
	s := b.String()
	if i := strings.IndexAny(s, "\n{"); i >= 0 {
		s = s[:i]
	}
	return s
}

func (r *rw) goToSpawn(n *ast.GoStmt) ast.Stmt {
	c := n.Call
	encl := r.goEncl[n]
	var role string
	if _, ok := c.Fun.(*ast.FuncLit); ok {
		role = encl + ".func"
	} else {
		role = encl + ">" + exprString(r.fset, c.Fun)
	}
	role = r.pkg.Name() + ":" + role
	if fl, ok := c.Fun.(*ast.FuncLit); ok && len(c.Args) == 0 && (fl.Type.Results == nil || len(fl.Type.Results.List) == 0) {
		return &ast.ExprStmt{X: call(r.mcrt("Go"), strLit(role), fl)}
	}
	var stmts []ast.Stmt
	lhs := []ast.Expr{ident("_gf")}
	rhs := []ast.Expr{c.Fun}
	var args []ast.Expr
	for i, a := range c.Args {
		nm := fmt.Sprintf("_ga%d", i)
		lhs = append(lhs, ident(nm))
		rhs = append(rhs, a)
		args = append(args, ident(nm))
	}
	stmts = append(stmts, &ast.AssignStmt{Lhs: lhs, Tok: token.DEFINE, Rhs: rhs})
	inner := &ast.CallExpr{Fun: ident("_gf"), Args: args}
	if c.Ellipsis.IsValid() {
		inner.Ellipsis = 1
	}
	fl := &ast.FuncLit{Type: &ast.FuncType{Params: &ast.FieldList{}}, Body: &ast.BlockStmt{List: []ast.Stmt{&ast.ExprStmt{X: inner}}}}
	stmts = append(stmts, &ast.ExprStmt{X: call(r.mcrt("Go"), strLit(role), fl)})
	return &ast.BlockStmt{List: stmts}
}

func usesName(f *ast.File, name string) bool {
	used := false
	ast.Inspect(f, func(n ast.Node) bool {
		if s, ok := n.(*ast.SelectorExpr); ok {
			if id, ok := s.X.(*ast.Ident); ok && id.Name == name && id.Obj == nil {
				used = true
			}
		}
		return !used
	})
	return used
}

func (r *rw) fixImports() {
	for _, im := range r.file.Imports {
		p, _ := strconv.Unquote(im.Path.Value)
		if m, ok := importMap[p]; ok {
			if im.Name == nil {
				im.Name = ident(m[0])
			}
			im.Path.Value = strconv.Quote(m[1])
		}
	}
	if r.needMcrt {
		have := false
		for _, im := range r.file.Imports {
			if p, _ := strconv.Unquote(im.Path.Value); p == "mcrt" && (im.Name == nil || im.Name.Name == "mcrt") {
				have = true
			}
		}
		if !have {
			astutil.AddNamedImport(r.fset, r.file, "mcrt", "mcrt")
		}
	}
	if r.needXtime {
		astutil.AddNamedImport(r.fset, r.file, "xtime", "mcrt/xtime")
		// drop "time" if nothing else uses it
		for _, im := range r.file.Imports {
			p, _ := strconv.Unquote(im.Path.Value)
			if p == "time" {
				name := "time"
				if im.Name != nil {
					name = im.Name.Name
				}
				if !usesName(r.file, name) {
					if im.Name != nil {
						astutil.DeleteNamedImport(r.fset, r.file, im.Name.Name, "time")
					} else {
						astutil.DeleteImport(r.fset, r.file, "time")
					}
				}
				break
			}
		}
	}
}
