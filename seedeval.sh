#!/bin/bash
# seedeval.sh <Cxx> <n>   (n = 1 or 2): confirm a seeded change in a scratch worktree of /repo's HEAD:
#   suite green with the change, demonstration fails with it and passes without it.
# Then (optionally, CHECKS="C01 C05") apply it to /repo, run the named quick checks, undo.
export GOFLAGS=-mod=mod GOPROXY=off GOSUMDB=off GOTOOLCHAIN=local
P=$1; N=${2:-1}
SRC=${SEEDROOT:-/tmp/seed}-$P-out
if [ "$N" = 1 ]; then PATCH=$SRC/patch.diff; DEMO=$(ls $SRC/demo_test.go $SRC/demo/main.go 2>/dev/null | head -1); else PATCH=$SRC/patch$N.diff; DEMO=$(ls $SRC/demo${N}_test.go $SRC/demo$N/main.go 2>/dev/null | head -1); fi
[ -f "$PATCH" ] || { echo "no patch $PATCH"; exit 2; }
W=/var/tmp/seedeval-$P-$N-$$
git -C /repo worktree add -q --detach $W HEAD || exit 2
cd $W
if ! git apply --3way $PATCH 2>/tmp/apply.err && ! git apply $PATCH 2>>/tmp/apply.err; then echo "PATCH DOES NOT APPLY"; cat /tmp/apply.err; cd /; git -C /repo worktree remove --force $W; exit 2; fi
git reset -q
echo "== build"; go build ./... || { echo BUILD-FAIL; }
echo "== suite with change"; go test -vet=off -count=1 ./... 2>&1 | tail -4
if [ -n "$DEMO" ]; then
  cp $DEMO $W/zz_demo_test.go
  T=$(grep -oE "^func (Test[A-Za-z0-9_]+)" zz_demo_test.go | awk '{print $2}' | paste -sd'|')
  RACE=""; grep -q "go test -race" $DEMO && RACE="-race"
  echo "== demo with change (expect FAIL): $T $RACE"; timeout 300 go test $RACE -vet=off -count=1 -run "^($T)\$" . 2>&1 | tail -6
  git diff > /var/tmp/seedeval-$P-$N.diff; git apply -R /var/tmp/seedeval-$P-$N.diff   # (never git stash: the stash is shared by all worktrees)
  echo "== demo without change (expect ok)"; timeout 300 go test $RACE -vet=off -count=1 -run "^($T)\$" . 2>&1 | tail -3
  git apply /var/tmp/seedeval-$P-$N.diff; rm -f /var/tmp/seedeval-$P-$N.diff
fi
if [ -n "$CHECKS" ]; then
  # run the named checks against this scratch tree (patch applied), without touching /repo
  B=/var/tmp/mcbuild-$P-$N-$$; mkdir -p $B/out
  rm -f $W/zz_demo_test.go
  for c in $CHECKS; do echo "== check $c with change"; (cd /verif && MC_REPO=$W MC_BUILD=$B MC_VERIF_OUT=$B/out ./mc.sh check $c --tier ${TIER:-quick} ${BUDGET:+--budget $BUDGET} 2>&1 | grep -E "violation key|VIOLATION|KNOWN|exhaustive|HARNESS|not a verdict" | cut -c1-260 | head -40); done
  rm -rf $B
fi
cd /; git -C /repo worktree remove --force $W
