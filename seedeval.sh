#!/bin/bash
# seedeval.sh <Cxx> <n>   (n = 1 or 2): confirm a seeded change in a scratch worktree of /repo's HEAD:
#   suite green with the change, demonstration fails with it and passes without it.
# Then (optionally, CHECKS="C01 C05") apply it to /repo, run the named quick checks, undo.
export GOFLAGS=-mod=mod GOPROXY=off GOSUMDB=off GOTOOLCHAIN=local
P=$1; N=${2:-1}
SRC=/tmp/seed-$P-out
if [ "$N" = 1 ]; then PATCH=$SRC/patch.diff; DEMO=$(ls $SRC/demo_test.go $SRC/demo/main.go 2>/dev/null | head -1); else PATCH=$SRC/patch$N.diff; DEMO=$(ls $SRC/demo${N}_test.go $SRC/demo$N/main.go 2>/dev/null | head -1); fi
[ -f "$PATCH" ] || { echo "no patch $PATCH"; exit 2; }
W=/var/tmp/seedeval-$P-$N-$$
git -C /repo worktree add -q --detach $W HEAD || exit 2
cd $W
if ! git apply --3way $PATCH 2>/tmp/apply.err && ! git apply $PATCH 2>>/tmp/apply.err; then echo "PATCH DOES NOT APPLY"; cat /tmp/apply.err; cd /; git -C /repo worktree remove --force $W; exit 2; fi
git reset -q
echo "== build"; go build ./... || { echo BUILD-FAIL; }
echo "== suite with change"; go test -vet=off -count=1 ./... 2>&1 | tail -4
if [ -n "$DEMO" ]; then
  cp $DEMO $W/zz_demo_test.go
  T=$(grep -oE "^func (Test[A-Za-z0-9_]+)" zz_demo_test.go | awk '{print $2}' | paste -sd'|')
  RACE=""; grep -q "go test -race" $DEMO && RACE="-race"
  echo "== demo with change (expect FAIL): $T $RACE"; timeout 300 go test $RACE -vet=off -count=1 -run "^($T)\$" . 2>&1 | tail -6
  git stash -q -- $(git diff --name-only) 2>/dev/null
  echo "== demo without change (expect ok)"; timeout 300 go test $RACE -vet=off -count=1 -run "^($T)\$" . 2>&1 | tail -3
  git stash pop -q 2>/dev/null
fi
cd /; git -C /repo worktree remove --force $W
if [ -n "$CHECKS" ]; then
  cd /repo && (git apply --3way $PATCH 2>/dev/null || git apply $PATCH) && git reset -q
  for c in $CHECKS; do echo "== check $c with change"; (cd /verif && ./mc.sh check $c --tier ${TIER:-quick} 2>&1 | grep -E "violation key|VIOLATION|KNOWN|exhaustive|HARNESS|not a verdict" | cut -c1-260 | head -12); done
  git -C /repo checkout -- . ; git -C /repo status --short | head -3
fi
