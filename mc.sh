#!/bin/bash
# mc.sh <subcommand> <Cxx> [...]: regenerate the instrumented copy of /repo's
# working tree, rebuild the driver against it, run it.
# For evaluating changes without touching /repo (seed evaluation), three
# variables redirect it: MC_REPO (tree to instrument, default /repo), MC_BUILD
# (build directory, default /verif/build), MC_VERIF_OUT (where evidence/ and
# replays/ are written, default /verif).
export GOFLAGS=-mod=mod GOPROXY=off GOSUMDB=off GOTOOLCHAIN=local
V=/verif
R=${MC_REPO:-/repo}
B=${MC_BUILD:-$V/build}
mkdir -p $B $V/bin
ID="$2-${VERIF_TIER:-x}-$$"
(
  flock 9
  [ -x $V/bin/mcgen ] || (cd $V/mcgen && go build -o $V/bin/mcgen .) || exit 2
  $V/bin/mcgen -src $R -out $B/gen/mpb >$B/gen.log 2>&1 || { cat $B/gen.log; echo "mc.sh: cannot instrument $R (not a verdict)"; exit 2; }
  $V/bin/mcgen -nofuel -src $V/scen -out $B/gen/scen -replace "github.com/vbauerster/mpb/v8=>$B/gen/mpb" >>$B/gen.log 2>&1 || { cat $B/gen.log; echo "mc.sh: cannot instrument scenarios (not a verdict)"; exit 2; }
  MF=""; PF=""
  if [ "$B" != "$V/build" ] || [ "$R" != "/repo" ]; then
    sed "s|/verif/build/gen|$B/gen|g" $V/mc/go.mod > $B/mc.mod; cp $V/mc/go.sum $B/mc.sum 2>/dev/null
    sed "s|=> /repo|=> $R|" $V/pristine/go.mod > $B/pristine.mod; cp $V/pristine/go.sum $B/pristine.sum 2>/dev/null
    MF="-modfile=$B/mc.mod"; PF="-modfile=$B/pristine.mod"
  fi
  (cd $V/mc && go build $MF -o $B/mc-$ID . ) || { echo "mc.sh: build failed (not a verdict)"; exit 2; }
  if [ "$2" = "C10" ]; then
    (cd $V/mc && go build $MF -race -gcflags='mcrt/...=-race=false' -gcflags='scen=-race=false' -o $B/mcrace-$ID . ) || { echo "mc.sh: race variant build failed (not a verdict)"; exit 2; }
  fi
  (cd $V/pristine && go build $PF -o $B/pristine-$ID . ) || { echo "mc.sh: pristine build failed (not a verdict)"; exit 2; }
) 9>$B/.lock || exit 2
MC_RACE_BIN=$B/mcrace-$ID MC_PRISTINE=$B/pristine-$ID $B/mc-$ID "$@"
rc=$?
rm -f $B/mc-$ID $B/pristine-$ID $B/mcrace-$ID
exit $rc
