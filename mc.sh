#!/bin/bash
# mc.sh <subcommand> <Cxx> [...]: regenerate the instrumented copy of /repo's
# working tree, rebuild the driver against it, run it.
export GOFLAGS=-mod=mod GOPROXY=off GOSUMDB=off GOTOOLCHAIN=local
V=/verif
B=$V/build
mkdir -p $B $V/bin
ID="$2-${VERIF_TIER:-x}-$$"
(
  flock 9
  [ -x $V/bin/mcgen ] || (cd $V/mcgen && go build -o $V/bin/mcgen .) || exit 2
  $V/bin/mcgen -src /repo -out $B/gen/mpb >$B/gen.log 2>&1 || { cat $B/gen.log; echo "mc.sh: cannot instrument /repo (not a verdict)"; exit 2; }
  $V/bin/mcgen -nofuel -src $V/scen -out $B/gen/scen -replace "github.com/vbauerster/mpb/v8=>$B/gen/mpb" >>$B/gen.log 2>&1 || { cat $B/gen.log; echo "mc.sh: cannot instrument scenarios against /repo (not a verdict)"; exit 2; }
  (cd $V/mc && go build -o $B/mc-$ID . ) || { echo "mc.sh: build failed (not a verdict)"; exit 2; }
  if [ "$2" = "C10" ]; then
    (cd $V/mc && go build -race -gcflags='mcrt/...=-race=false' -gcflags='scen=-race=false' -o $B/mcrace-$ID . ) || { echo "mc.sh: race variant build failed (not a verdict)"; exit 2; }
  fi
  (cd $V/pristine && go build -o $B/pristine-$ID . ) || { echo "mc.sh: pristine build failed (not a verdict)"; exit 2; }
) 9>$B/.lock || exit 2
MC_RACE_BIN=$B/mcrace-$ID MC_PRISTINE=$B/pristine-$ID $B/mc-$ID "$@"
rc=$?
rm -f $B/mc-$ID $B/pristine-$ID $B/mcrace-$ID
exit $rc
