// pristine runs sequential enumeration chunks against the UNMODIFIED package
// in /repo (no rewrite, real runtime) and prints the digest of all outputs, so
// that the driver can compare it with the digest of the instrumented run.
package main

import (
	"bufio"
	"encoding/json"
	"fmt"
	"os"
	"strconv"

	"scen"
)

func main() {
	if len(os.Args) < 5 || os.Args[1] != "chunk" {
		fmt.Fprintln(os.Stderr, "usage: pristine chunk <Cxx> <tier> <index> [--dump]  (skip list: one case id per line on stdin)")
		os.Exit(2)
	}
	prop, tier := os.Args[2], os.Args[3]
	idx, _ := strconv.Atoi(os.Args[4])
	dump := len(os.Args) > 5 && os.Args[5] == "--dump"
	gen := scen.SeqFamilies[prop]
	if gen == nil {
		fmt.Fprintln(os.Stderr, "no sequential family", prop)
		os.Exit(2)
	}
	chunks := gen(tier)
	if idx < 0 || idx >= len(chunks) {
		fmt.Fprintln(os.Stderr, "chunk index out of range")
		os.Exit(2)
	}
	var skip []string
	sc := bufio.NewScanner(os.Stdin)
	sc.Buffer(make([]byte, 1<<20), 1<<24)
	for sc.Scan() {
		if sc.Text() != "" {
			skip = append(skip, sc.Text())
		}
	}
	var w *bufio.Writer
	var df func(id, out string)
	if dump {
		w = bufio.NewWriter(os.Stderr)
		df = func(id, out string) { fmt.Fprintf(w, "%q\t%q\n", id, out) }
	}
	env := scen.RunChunkPristine(chunks[idx], skip, df)
	if w != nil {
		w.Flush()
	}
	json.NewEncoder(os.Stdout).Encode(map[string]interface{}{"digest": env.Digest(), "cases": env.Cases, "name": chunks[idx].Name})
}
