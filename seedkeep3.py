#!/usr/bin/env python3
"""seedkeep3.py: third round of seeded changes. Sources /tmp/seed3-Cxx-out (sub-agent deliverables), logs
/verif/seedlogs/round3last (final evaluation) and /verif/seedlogs/round2 (first evaluation, before strengthening).
Writes /verif/seeded/<P>-3 and <P>-4 (round-2 change 1 and 2) and /verif/seeded/TABLE3.md."""
import json, os, shutil, sys
sys.argv = [sys.argv[0]]
import importlib.util
spec = importlib.util.spec_from_file_location("sk", "/verif/seedkeep_parse.py")
sk = importlib.util.module_from_spec(spec); spec.loader.exec_module(sk)
parse = sk.parse

SUMMARY = {
 "C01-1": ("progress.go flush, render-error path: `close(s.iterDrop)` moved in front of the loop that drains the renders already started", "a filler error while two other bars share a synchronised column and have not finished their width exchange"),
 "C01-2": ("progress.go NewWithContext, manual-refresh branch: `s.autoRefresh = false` dropped", "WithAutoRefresh() together with WithManualRefresh(ch), two bars finishing in the same refresh gap, nobody requesting a refresh afterwards"),
 "C02-1": ("bar.go SetCurrent: the clamp `s.current = s.total` before triggerCompletion lost", "SetCurrent beyond the total in an auto-refreshing container: the bar never counts as completed, Wait hangs"),
 "C02-2": ("progress.go flush case 1: the remove-on-complete test moved to an early `break` in front of the queued-successor look-up", "a bar queued behind a predecessor that leaves by removal (Abort(true) or BarRemoveOnComplete)"),
 "C03-1": ("progress.go flush case 2: `s.popCompleted && !frame.noPop` -> `s.popCompleted`", "pop mode + a finished BarNoPop bar + one more render"),
 "C03-2": ("bar.go: completed() compares `>=` and EwmaIncrInt64 loses its clamp (two sites, each harmless alone)", "a moving-average increment that overshoots the total: last frame shows 120/100"),
 "C04-1": ("progress.go NewWithContext: initial popPriority math.MinInt8 instead of math.MinInt32", "pop mode with a running bar of priority <= -128, or 129 bars already popped next to a long-lived early bar"),
 "C04-2": ("bar_filler_bar.go Build: the right bound's width taken from the left bound", "bounds of different display width (right wider): the row overflows and wraps"),
 "C05-1": ("progress.go flush: `if usedRows == 0 { continue }` after the row loop skips the push-back of a bar cut off by the frame height", "more bar rows than the frame is tall, then the bottom bars leave: the cut-off bars never come back"),
 "C05-2": ("heap_manager.go push: the fallback goroutine of a full queue removed (push discarded)", "more bars than the queue length"),
 "C06-1": ("heap_manager.go h_fix: the priority written through the heap slot `bHeap[bar.index]` (index of a queued bar is 0 although it is not in the heap)", "SetPriority on a bar still queued behind its predecessor: the bottom bar's priority is overwritten"),
 "C06-2": ("progress.go Add: `ps.idCount++` only when the bar's id equals the counter", "a bar with an explicit BarID different from the counter followed by default-priority bars: two bars share a default priority"),
 "C07-1": ("bar_filler_spinner.go Fill: `width < frameWidth` -> `width < 1` (negative pad clamped)", "a spinner frame wider than the room left for it"),
 "C07-2": ("decor/decorator.go WC.Format: width measured in runes instead of display columns", "decorator text with 2-column runes wider than W and the synchronised width"),
 "C08-1": ("bar_filler_bar.go Build: the filler's cell width taken from the padding string", "filler and padding runes of different display width"),
 "C08-2": ("bar_filler_bar.go Fill: whole width filled whenever stat.Completed, percentage only otherwise", "a bar of non-positive total completed (SetTotal(-1, true) with nothing counted): drawn full instead of empty"),
 "C09-1": ("bar.go EnableTriggerComplete: `s.current >= s.total` -> `==`", "current already beyond the total when the trigger is enabled"),
 "C09-2": ("bar.go completed(): the `!s.aborted` term dropped (reverts the repair 7c7e2d9)", "Abort of an untriggered bar at current == total"),
 "C10-1": ("bar.go EwmaSetCurrent: `d := d` removed from the fan-out loop (go 1.17 loop variable)", "two or more moving-average decorators driven through EwmaSetCurrent"),
 "C10-2": ("bar.go TraverseDecorators: callback run by the caller, decorators handed over an unbuffered channel", "a render served while the callback works on the bar's last decorator (DecoratorAverageAdjust vs Decor)"),
 "C11-1": ("bar.go Wait: waits for ctx.Done() instead of bsOk", "a bar ended only by cancellation whose goroutine still answers a getter after Wait returned: neither completed nor aborted"),
 "C11-2": ("bar.go completed() narrowed, Completed()/newStatistics adjusted, the exit path forgotten", "Abort at current == total, or increments after Abort reaching the total: Aborted flips to false at goroutine exit"),
 "C12-1": ("decor/on_complete.go onCompleteMetaWrapper.Decor: width re-measured after the meta function (escape sequences counted)", "OnCompleteMeta with colour codes before a synchronised decorator, tight width: that decorator is cut in the completed bar only"),
 "C12-2": ("decor/decorator.go WC.Init: the sync channel allocated only when nil", "user code reusing one initialised WC for several decorators of a column: exchange never completes"),
 "C13-1": ("progress.go serve: the writer handed to Write closures taken once before the loop (stale after the render delay switches writers)", "WithRenderDelay + Progress.Write: accepted, never shown"),
 "C13-2": ("progress.go NewWithContext: interceptIO buffered (1)", "a Write starting after or during shutdown parks its closure in the buffer and blocks for ever instead of returning ErrDone"),
 "C14-1": ("progress.go serve: the drain goroutine after a render error leaves on ctx.Done() (same edit as C02-3)", "a render error while the refresh listener is blocked forwarding a request"),
 "C14-2": ("bar.go serve exit path: `bs.aborted = bs.aborted || bs.current < bs.total`", "bars of unknown total (or overrun) ended only by cancellation report neither state"),
 "C15-1": ("progress.go serve: the drain goroutine after a render error started only `if s.autoRefresh`", "manual refresh, a second request accepted by the listener while the failing cycle runs"),
 "C15-2": ("progress.go render: `close(s.iterDrop)` removed from the early return when the terminal size query fails (same edit as C16-3)", "terminal output whose size query fails in some cycle"),
 "C16-1": ("progress.go traverseBars: plain blocking send instead of select with p.done", "a bar completing (auto refresh: tryEarlyRefresh goroutine) while serve is busy and the container then ends"),
 "C16-2": ("progress.go serve: in the drain goroutine `case <-p.done: return` -> `break` (leaves only the select)", "any container ended by a render error keeps a spinning goroutine"),
 "C17-1": ("heap_manager.go h_push: `sync = data.sync` (same edit as C01-1)", "queued successor + synchronised decorators + another bar above the predecessor"),
 "C17-2": ("bar.go render, bsOk branch: the frame computed on a copy of the final state (shutdown counter lost)", "manual refresh (bars cancel at completion) + BarQueueAfter: the predecessor never retires"),
 "C18-1": ("priority_queue.go Less as subtraction (same edit as C06-2)", "pop mode + a bar pinned with BarPriority(math.MaxInt)"),
 "C18-2": ("bar_option.go makeExtenderFunc: unterminated last line kept as a row (same edit as C04-2)", "pop mode + an extender without final newline rendered after another bar was popped"),
 "C19-1": ("bar.go unwrap: one layer only (same edit as C20-1)", "a moving-average decorator wrapped twice: the proxies no longer feed it"),
 "C19-2": ("bar.go EwmaIncrBy: `if n <= 0 { return }`", "zero-byte reads/writes that take time: their duration is lost from the next sample"),
 "C20-1": ("decor/size_type.go Format: package-level scratch array (same idea as C10-4)", "two bars formatting sizes concurrently"),
 "C20-2": ("decor/eta.go chooseTimeProducer: hours `% 24` instead of `% 60` in the clock styles", "durations of 24 h and more"),
}

FIRST_OVERRIDE = {"C01-2": {"C01": False, "C02": False}, "C08-2": {"C08": False, "C03": False}, "C10-1": {"C10": False, "C19": False},
                  "C10-2": {"C10": False}, "C11-1": {"C11": False, "C14": False},
                  # C06-1: the first run was killed by another agent's machine-wide pkill; the program that catches it did not exist yet
                  "C06-1": {"C06": False, "C17": False}}
props = {json.loads(l)["id"]: json.loads(l) for l in open("/verif/properties.jsonl")}
rows = []
for p in sorted(props):
    for n in (1, 2):
        sid2 = f"{p}-{n}"
        sid = f"{p}-{n+4}"
        src = f"/tmp/seed3-{p}-out"
        patch = f"{src}/patch.diff" if n == 1 else f"{src}/patch{n}.diff"
        demo = f"{src}/demo_test.go" if n == 1 else f"{src}/demo{n}_test.go"
        notes = f"{src}/notes.txt" if n == 1 else f"{src}/notes{n}.txt"
        final = parse(f"/verif/seedlogs/round3last/{sid2}.log")
        first = parse(f"/verif/seedlogs/round3/{sid2}.log")
        if final is None or not os.path.exists(patch):
            print("MISSING", sid2); continue
        ok = final["suite_green"] and final["demo_fails_with"] and final["demo_passes_without"]
        d = f"/verif/seeded/{sid}"
        if ok:
            os.makedirs(d, exist_ok=True)
            shutil.copy(patch, f"{d}/patch.diff")
            for s, t in ((demo, "demo_test.go"), (notes, "notes.txt")):
                if os.path.exists(s):
                    shutil.copy(s, f"{d}/{t}")
        caught = [c for c, v in final["checks"].items() if v["caught"]]
        missed = [c for c, v in final["checks"].items() if not v["caught"]]
        fc = (first or {"checks": {}})["checks"]
        if sid2 in FIRST_OVERRIDE:  # the first-evaluation log of these five was overwritten by the re-run after strengthening
            fc = {c: {"caught": v} for c, v in FIRST_OVERRIDE[sid2].items()}
        what, needs = SUMMARY.get(sid2, ("", ""))
        meta = {
            "id": sid, "round": 3, "property": p, "property_title": props[p]["title"],
            "change": what, "needs_to_manifest": needs,
            "author": "sub-agent given only the property text, the one-line descriptions of the changes of rounds 1 and 2 for its property (to avoid repeats) and a scratch worktree of /repo (nothing from /verif)",
            "confirmed_by_me": {
                "how": "seedeval.sh: scratch worktree of /repo HEAD; git apply patch; go build; go test -vet=off -count=1 ./...; demonstration run with the change (must fail) and with the change reverted by git apply -R (must pass)",
                "suite_green_with_change": final["suite_green"], "demo_fails_with_change": final["demo_fails_with"], "demo_passes_without_change": final["demo_passes_without"]},
            "checks_run": {c: {"caught": v["caught"], "violation_keys": v["keys"][:6], "run": v["summary"]} for c, v in final["checks"].items()},
            "caught_by": caught, "not_caught_by": missed,
            "first_evaluation_before_strengthening": {"caught_by": [c for c, v in fc.items() if v["caught"]], "not_caught_by": [c for c, v in fc.items() if not v["caught"]]},
            "ran": f"SEEDROOT=/tmp/seed3 CHECKS=\"{' '.join(final['checks'])}\" /verif/seedeval.sh {p} {n}  (= MC_REPO=<scratch tree with the patch> ./mc.sh check <Cxx> --tier quick; equivalent to git -C /repo apply patch.diff; ./mc.sh check ...; git -C /repo checkout -- .)",
            "kept": ok,
        }
        if ok:
            json.dump(meta, open(f"{d}/meta.json", "w"), indent=1)
        rows.append(meta)

with open("/verif/seeded/TABLE3.md", "w") as f:
    f.write("| seed | change | needs | suite green / demo fails with / passes without | caught by (quick tier) | not caught by | first evaluation missed |\n|---|---|---|---|---|---|---|\n")
    for m in rows:
        c = m["confirmed_by_me"]
        f.write(f"| {m['id']} | {m['change'].replace('|', chr(92)+'|')} | {m['needs_to_manifest']} | {'yes' if c['suite_green_with_change'] else 'NO'} / {'yes' if c['demo_fails_with_change'] else 'NO'} / {'yes' if c['demo_passes_without_change'] else 'NO'} | {', '.join(m['caught_by']) or '—'} | {', '.join(m['not_caught_by']) or '—'} | {', '.join(m['first_evaluation_before_strengthening']['not_caught_by']) or '—'} |\n")
print(f"{len(rows)} seeds, kept {sum(1 for m in rows if m['kept'])}, caught by at least one check: {sum(1 for m in rows if m['caught_by'])}, by own check: {sum(1 for m in rows if m['property'] in m['caught_by'])}")
for m in rows:
    if not m["caught_by"] or not m["kept"]:
        print("ATTENTION", m["id"], "kept" if m["kept"] else "NOT-KEPT", m["confirmed_by_me"], m["caught_by"])
